#!/usr/bin/env python3
# Regenerates MANIFEST.json from the table below (kept next to the code so the
# two cannot drift silently). Run: python3 gen_manifest.py
import json

BASE = json.load(open('/root/.vp/BASELINE.json'))['cmd']

TECH = "bounded symbolic execution of the real Go code (go/ssa lowered from /repo's working tree on every run) with an SMT solver (z3 5.1.0) deciding every branch feasibility and every assertion; counterexamples replayed natively against the real build"

CHECKS = {
 "C10": ("every expression of the reference grammar up to the token bound (and every token sequence at a smaller bound) is parsed by the real parser; acceptance and the truth table of the parsed rewrite are compared with a TypeScript reference by solver query; spelling variants through the real lexer",
         "token choice and spelling variants are explored by forking (viable prefixes), not by the solver; expressions longer than the bound and nesting beyond 11 are outside; reference grammar/evaluator (60 lines) trusted", "4 C10"),
 "C12": ("the real lexer, parser and error rendering are executed on fully symbolic byte strings (all 256 values per byte) and on arbitrary token sequences up to the bound: no panic, bounded steps, positions sane; the REST and gRPC syntax endpoints report the parser's errors for the submitted bytes; every lexeme repeated 19..64 times (runs longer than the lexer's item buffer, pathological nesting); every token of a full document replaced in turn by a non-UTF-8 literal: all messages stay valid UTF-8",
         "inputs longer than the bound are outside; 'linear time' is only asserted as a step bound within the bound; fmt/strings.Builder modelled", "4 C12"),
 "C18": ("string form: decode(encode(x)) == x for every field content within the length bound and decode stability for every byte string within the bound (bytes symbolic); proto and URL legs with opaque symbolic strings of any length",
         "JSON leg not covered (reflection); field lengths enumerated by forking; url.Values treated as a map (no percent-encoding)", "4 C18"),
}

ENGINE_NOTE = "the engine runs on MemStore, an in-memory specification of relationtuple.Manager/Traverser over K symbolic rows; config getters overridden; logger/tracer no-ops; stores, pools and configuration families bounded as listed in the evidence; schedules: deterministic scheduler only (delay bound 0)"
CHECKS.update({
 "C01": ("the real check engine (checkIsAllowed, rewrites, binop, the concurrent checkgroup, visited set) is executed symbolically on K symbolic rows for families of rewrite configurations in both modes; the decision is compared with the well-founded relationship-graph semantics expressed as a formula over the same symbolic rows, one solver query per path",
         ENGINE_NOTE, "4 C01"),
 "C02": ("request-depth clamp: Check(r) under global G equals Check(0) under eff(r,G) for a fully symbolic 64-bit r; fail-closed: whatever is allowed under depth/width limits is allowed by the unbounded semantics formula; of the subject sets one expansion returns at most max-width - 1 are followed when there are more than max-width (ghost accounting); the REST max-depth parameter is handed on with the meaning of the number sent (strconv.ParseInt as an environment stub returning an arbitrary 64-bit number)",
         ENGINE_NOTE, "4 C02"),
 "C03": ("the k-th storage call of the check fails (k symbolic over every call position, transient or persistent): the answer is an error or the fault-free answer, never allowed-for-denied, never allowed-with-error (two kinds of failure: a plain error and one that wraps context.Canceled); hangs are detected as deadlocks of the modelled scheduler; Lemma PF: a failing database operation inside a read call of the real SQL layer (database model) surfaces as an error",
         ENGINE_NOTE + "; faults are injected at the MemStore boundary (engine runs) and at the pop boundary of the database model (Lemma PF), so counterexamples cannot be replayed against the real persister", "4 C03"),
})

CHECKS.update({
 "C09": ("the real expand engine on K symbolic rows (page size 100/1/2): every edge of the tree is a stored relationship, each subject set expanded once, height within the effective depth, everything reachable within the depth present (bounded-reachability formula over the rows), leaves cross-checked with the real check engine",
         ENGINE_NOTE, "4 C09"),
 "C11": ("OPL programs of a User/Group/Doc skeleton with a choice at every reference site go through the real parser and type checker; accepted programs configure the real engine, which must not return a schema error on any conforming symbolic store; programs with an undeclared reference must be rejected with an error naming it",
         ENGINE_NOTE + "; program space = the skeleton's variants only", "4 C11"),
 "C15": ("every path of the real engine (operator set and recursive-permission configurations) returns: hangs are deadlocks of the modelled scheduler, runaway recursion exceeds the call-depth budget; storage calls bounded; cancellation before the call or inside storage call c (symbolic c); after return and context release no modelled goroutine is left blocked",
         ENGINE_NOTE + "; goroutines, channels, select, sync and context are the executor's models of Go's semantics", "4 C15"),
 "C16": ("the real Mapper (FromTuple/ToTuple/FromQuery/ToQuery/ToTree) on batches of tuples whose names are opaque symbolic strings with solver-decided equalities: position-wise round trip, right id in the right field, equal strings equal ids, read-only mapper never writes; SQL side: two networks sharing the mapping table read back their own names, names written after a rolled-back attempt are readable",
         "engine-side runs: the MappingManager is an injective table stub; SQL-side runs: the real MapStringsToUUIDs / batchFromUUIDs / MapUUIDsToStrings on a model keto_uuid_mappings table (symbolic presence of pre-existing mappings, lookup page 1..3 or default, every order of the id map up to 3 entries, batches of 99..102 (thorough ..249) distinct names with repeats at the default page of 100); batch shapes are enumerated by forking, names in the SQL runs come from a fixed adversarial pool", "4 C16"),
})

HANDLER_NOTE = "handlers run with recording storage stubs, a capturing herodot writer, JSON decoding replaced by 'arbitrary value of the static type or an error', config getters overridden; HTTP routing/middleware and wire formats are outside"
CHECKS.update({
 "C08": ("the real REST and gRPC check handlers and the real Engine.BatchCheck are executed with the engine core replaced by an uninterpreted function (fresh symbolic membership/error per distinct mapped tuple and depth): every transport's decision equals the engine's, status mirroring is 200<=>allowed / 403<=>denied, unknown namespaces (of the relationship or of its subject set, decided by the harness's own namespace list) are never allowed, batch results are per-slot and in order, also for names that contain the separator characters of the textual rendering",
         HANDLER_NOTE + "; counterexamples cannot be replayed natively because the engine core is uninterpreted here", "4 C08"),
 "C13": ("every exported gRPC handler of the check/read/write/expand services and the bodies of the REST handlers are executed on arbitrary inhabitants of their request types (nil-ness of every optional pointer, null array elements, fully symbolic numbers, opaque strings): no panic in any goroutine, malformed requests are not 5xx/Internal, rejected writes do not write; the real GetRelationTuples on the database model does not panic for any non-negative page size",
         HANDLER_NOTE, "4 C13"),
 "C17": ("the read handlers (check, batch check, list, expand) on arbitrary requests never call a writing method of relationtuple.Manager / MappingManager nor obtain the writing Mapper; RegistryDefault hands out a read-only ReadOnlyMapper; the real ReadGRPCServer / WriteGRPCServer / OplGRPCServer register exactly their own services (grpc.NewServer and the generated Register functions replaced by recording stubs)",
         HANDLER_NOTE + "; decided at the Manager/MappingManager interface, the SQL below it is not part of this check", "4 C17"),
})

CHECKS.update({
 "C14": ("two checks issued concurrently against one real engine and one symbolic store under every schedule within delay bound 1 of the deterministic scheduler return what they return alone; every load/store/map access of the interpreted program is checked against a vector-clock happens-before relation (data race = unordered conflicting accesses); the lazily initialised registry getters and Config.NamespaceManager (with a concurrent reload) are run from several goroutines; the entries of a real BatchCheck get the answers the same checks get alone",
         ENGINE_NOTE + "; the race analysis is the executor's own (models of go/channels/sync/atomics/context), not the Go race detector", "4 C14"),
 "C19": ("the real OPL watcher and legacy namespace watcher structs are driven by every event sequence of bounded length (2 files x {valid v1, valid v2, syntax error, type error, remove}); after every event the namespaces visible through Namespaces() must be, per file, those of one valid version loaded so far, never nothing, and the last valid version at the end; documents go through the real schema.Parse; a Config.watcher event with the namespaces setting unchanged keeps the manager and its last valid version",
         "events are delivered by direct calls (no fsnotify, no timing); sequences enumerated by forking, the solver is idle here; legacy parser stubbed in symbolic runs", "4 C19"),
})

SQL_NOTE = "the real sql.Persister / sql.Traverser run on a database model: the pop boundary is overridden and the SQL text and arguments produced by keto are parsed and evaluated against K row slots with symbolic content (two networks); the behaviour of the real database engines is an assumption encoded in the model; no native replay"
CHECKS.update({
 "C04": ("one inductive step: from an arbitrary symbolic table, one write operation with symbolic names (create, delete, delete-by-query, transact) through the real Persister, then the stored state is compared slot by slot with a multiset model and a listing with an arbitrary query (real GetRelationTuples/ExistsRelationTuples, whereQuery, buildInsert, buildDelete) is compared with the model as multisets by solver-decided counting formulas",
         SQL_NOTE, "4 C04"),
 "C05": ("every terminal database operation of a transact/create/delete request (1st..3rd) may fail and one relationship may lack its subject at any position: on error the table equals the pre-state slot by slot, no statement bypasses the open transaction; chunk-spanning requests (3001 inserts, 101 deletes) with the first or second statement failing, also as a retryable failure after which the transaction callback is re-run",
         SQL_NOTE + "; isolation from concurrent readers is reduced to 'all statements go through the open transaction'", "4 C05"),
 "C06": ("tables hold rows of two networks with symbolic network ids: every write under network A leaves the rows of network B unchanged (formula per slot), listings never return them, and the real subject-set-expansion and rewrite traversals (raw SQL with EXISTS sub-select) return exactly what a specification computes from network A's rows; the same with the caller's network supplied by a contextualizer from the request context while the persister was created for network B",
         SQL_NOTE, "4 C06"),
 "C07": ("arbitrary table, symbolic query and symbolic page size 0..K+1: following next_page_token through the real keyset pagination with one interleaved insert or delete returns every relationship that existed for the whole iteration at least once and nothing more often than stored, pages never exceed the size, tokens end, malformed tokens are rejected; the subject-set expansion's own 1000-row page loop on concrete nodes of 1000..2001 subject sets (expansion query summarised)",
         SQL_NOTE, "4 C07"),
})

NOT_APPLICABLE = {}

def main():
    checks = []
    for pid in sorted(CHECKS):
        text, note, ref = CHECKS[pid]
        checks.append({
            "property_id": pid,
            "quick_cmd": f"/verif/bin/vcheck {pid} --tier quick",
            "thorough_cmd": f"/verif/bin/vcheck {pid} --tier thorough",
            "evidence_file": f"/verif/evidence/{pid}.json",
            "replay_cmd_template": f"/verif/bin/vcheck {pid} --replay {{path}}",
            "engine": "symgo",
            "level_claimed": {"category": "model_checking", "text": text + ". Bounded: holds for every input/schedule within the stated bounds, nothing is claimed outside them.", "design_ref": "DESIGN.md section " + ref},
            "level_note": note + "; trusted base: go/ssa lowering, the executor's instruction semantics and stubs (listed per run in the evidence file), z3",
            "technique": TECH,
        })
    all_ids = [f"C{n:02d}" for n in range(1, 20)]
    na = []
    for pid in all_ids:
        if pid not in CHECKS:
            na.append({"property_id": pid, "reason": NOT_APPLICABLE.get(pid, "check not built yet in this session (work in progress, see DESIGN.md section 8)")})
    m = {
        "version": 1,
        "setup_cmd": "cd /verif/symgo && GOFLAGS=-mod=mod GOPROXY=off go build -o /verif/bin/vcheck ./cmd/vcheck",
        "hooks": {
            "guard": "verif",
            "enable": "harness files (//go:build verif) are injected into /repo's package directories through go/packages Overlay (symbolic runs) and go test -overlay -tags verif (native replay); nothing is committed to /repo for them",
            "baseline_off_cmd": BASE,
            "source_commits": [],
            "add_only": True,
        },
        "engines": [{"name": "symgo", "path": "/verif/symgo", "serves_properties": sorted(CHECKS), "kind_free_text": "symbolic executor for go/ssa with SMT-decided branches (fork of x/tools ssa/interp), deterministic goroutine scheduler, stubs; driver cmd/vcheck"}],
        "checks": checks,
        "not_applicable": na,
        "notes": "exit codes of vcheck: 0 held on everything explored (known findings printed as KNOWN-FINDING lines), 1 VIOLATION (counterexample confirmed by native replay), 2 inconclusive (unsupported construct, solver unknown, budget, vacuous harness).",
    }
    json.dump(m, open('/verif/MANIFEST.json', 'w'), indent=1)

main()
