#!/bin/bash
# usage: verify_seed.sh <name> <patch.diff> <demo-file (path inside the donor worktree)> <donor worktree> "<demo test command (run inside the tree)>"
# Confirms in a scratch worktree of /repo HEAD: the patch applies, the demo passes without it and fails with it,
# and the baseline suite still passes with it.
set -u
name=$1; patch=$2; demo=$3; donor=$4; cmd=$5
export GOFLAGS=-mod=mod GOPROXY=off
wt=/tmp/seedcheck-$name
git -C /repo worktree remove --force $wt 2>/dev/null
git -C /repo worktree add -q --detach $wt HEAD || exit 2
rel=${demo#$donor/}
mkdir -p $(dirname $wt/$rel); cp $demo $wt/$rel
echo "== demo WITHOUT the change"
(cd $wt && eval "$cmd") > /tmp/seedcheck-$name.without.log 2>&1; rc0=$?
tail -3 /tmp/seedcheck-$name.without.log
echo "== apply"
git -C $wt apply --3way $patch 2>&1 | tail -2 || { echo "PATCH DOES NOT APPLY"; }
echo "== demo WITH the change"
(cd $wt && eval "$cmd") > /tmp/seedcheck-$name.with.log 2>&1; rc1=$?
tail -5 /tmp/seedcheck-$name.with.log
echo "== baseline suite WITH the change (demo file removed)"
rm -f $wt/$rel
python3 /verif/tools/baseline_check.py $wt | tail -3; rcb=$?
echo "RESULT name=$name demo_without_rc=$rc0 demo_with_rc=$rc1 baseline_rc=$rcb"
git -C /repo worktree remove --force $wt
