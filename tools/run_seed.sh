#!/bin/bash
# usage: run_seed.sh <seed dir name> <property id>...   applies the seeded change to /repo, runs the checks, undoes it
d=/verif/seeded/$1; shift
git -C /repo apply --3way $d/patch.diff 2>&1 | tail -1
for p in "$@"; do
  /verif/bin/vcheck $p --tier ${TIER:-quick} 2>&1 | grep -v level=info | grep "counterexample\|VIOLATION\|held on\|INCONCLUSIVE\|KNOWN" | cut -c1-220 | head -8
done
git -C /repo reset -q --hard HEAD; git -C /repo status --short | head -3
