#!/bin/bash
# usage: solver_diff.sh [ids...]   runs the quick tier of small checks under three solvers and compares the verdict lines
# (completed paths, obligations, violations must agree; evidence files are not touched)
ids=${@:-C13 C17 C18 C19 C10 C03}
export VERIF_NO_EVIDENCE=1
rc=0
for id in $ids; do
  for s in z3-new z3 cvc5; do
    out=$(timeout 3000 /verif/bin/vcheck $id --tier quick --solver $s --no-native 2>&1 | grep -v level=info)
    sig=$(echo "$out" | grep "^\[$id/" | grep "paths=" | sed -E 's/.*\[([^]]*)\] paths=[0-9]+ completed=([0-9]+).*obligations=([0-9]+) discharged=([0-9]+) violations=([0-9]+).*exhaustive=([a-z]+).*/\1 completed=\2 obligations=\3 discharged=\4 violations=\5 exhaustive=\6/' | sort | md5sum | cut -c1-12)
    verdict=$(echo "$out" | grep "held on\|VIOLATION\|INCONCLUSIVE" | head -1 | cut -c1-100)
    echo "$id $s $sig $verdict"
  done
done
