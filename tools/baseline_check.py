#!/usr/bin/env python3
"""Runs the repository's baseline suite (guard off) on /repo (or the directory given) and
checks that every test of BASELINE.json's stable_pass list passes."""
import json, subprocess, sys, os
repo = sys.argv[1] if len(sys.argv) > 1 else '/repo'
base = json.load(open('/root/.vp/BASELINE.json'))
stable = set(base['stable_pass'])
env = dict(os.environ, GOFLAGS='-mod=mod', GOPROXY='off')
passed, failed = set(), set()
for mod in ['.', './proto']:
    p = subprocess.run(['go', 'test', '-mod=mod', '-json', '-vet=off', '-count=1', '-timeout', '25m', './...'],
                       cwd=os.path.join(repo, mod), env=env, capture_output=True, text=True)
    for line in p.stdout.splitlines():
        try:
            ev = json.loads(line)
        except Exception:
            continue
        if 'Test' not in ev:
            continue
        name = ev['Package'] + '::' + ev['Test']
        if ev['Action'] == 'pass':
            passed.add(name)
        elif ev['Action'] == 'fail':
            failed.add(name)
missing = sorted(stable - passed)
print(f'stable baseline tests: {len(stable)}; passing now: {len(stable & passed)}; missing/failing: {len(missing)}')
for m in missing[:20]:
    print('  NOT PASSING:', m)
sys.exit(1 if missing else 0)
