set -x
export GOFLAGS=-mod=mod GOPROXY=off
(cd symgo && go build -o ../bin/vcheck ./cmd/vcheck) || exit 9
export VERIF_DIR=$PWD VERIF_REPO=$VP_RUN_REPO VERIF_NO_EVIDENCE=1
for id in ${IDS:-C18 C19 C17 C13 C16 C10 C07 C05 C03 C08 C11 C12 C15 C09 C06 C04 C14 C02 C01}; do
  s=$(date +%s)
  bin/vcheck $id --tier thorough > thorough.$id.log 2>&1; rc=$?
  echo "THOROUGH $id rc=$rc $(( $(date +%s) - s ))s $(grep -c '^KNOWN-FINDING' thorough.$id.log) known; $(grep '^VIOLATION\|^INCONCLUSIVE' thorough.$id.log | head -3 | cut -c1-220 | tr '\n' ' ')"
done
