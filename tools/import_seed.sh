#!/bin/bash
# usage: import_seed.sh <ID> <name> <demo file relative to the worktree> "<demo command>" "<change>" "<needs>"
# copies a sub-agent's change from /tmp/wt/<ID> into /verif/seeded/<ID>-<name>/ and verifies it (verify_seed.sh)
id=$1; name=$2; demo=$3; cmd=$4; change=$5; needs=$6
d=/verif/seeded/$id-$name; mkdir -p $d
git -C /tmp/wt/$id diff > $d/patch.diff
cp /tmp/wt/$id/$demo $d/$(basename $demo)
python3 - "$d" "$id" "$demo" "$cmd" "$change" "$needs" <<'PY'
import json,sys
d,id,demo,cmd,change,needs=sys.argv[1:7]
json.dump({"property":id,"change":change,"needs_to_manifest":needs,"demo_file":demo,"demo_command":cmd,
 "produced_by":"independent sub-agent that saw only the property text and its own scratch worktree"},open(d+"/meta.json","w"),indent=1)
PY
/verif/tools/verify_seed.sh $id-$name $d/patch.diff /tmp/wt/$id/$demo /tmp/wt/$id "$cmd" 2>&1 | tail -12
