#!/bin/bash
# usage: run_all.sh [quick|thorough] [ids...]   runs the registered checks one after the other against /repo, prints one line per check
tier=${1:-quick}; shift
ids=${@:-C01 C02 C03 C04 C05 C06 C07 C08 C09 C10 C11 C12 C13 C14 C15 C16 C17 C18 C19}
mkdir -p /verif/logs
for id in $ids; do
  s=$(date +%s)
  /verif/bin/vcheck $id --tier $tier > /verif/logs/$id.$tier.log 2>&1; rc=$?
  echo "$id rc=$rc $(( $(date +%s) - s ))s $(grep -c '^KNOWN-FINDING' /verif/logs/$id.$tier.log) known; $(grep '^VIOLATION\|^INCONCLUSIVE' /verif/logs/$id.$tier.log | head -2 | cut -c1-200 | tr '\n' ' ')"
done
