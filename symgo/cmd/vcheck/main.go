// vcheck decides one property of ory/keto by bounded symbolic execution of
// the real code (go/ssa lowered from /repo's working tree) with an SMT solver.
//
//	vcheck <property-id> --tier quick|thorough
//	vcheck <property-id> --replay <file>
//	vcheck dev --pkg <import path> --dir <harness dir> --fn <Harness> [--param k=v]...
package main

import (
	"bytes"
	"crypto/sha256"
	"encoding/json"
	"flag"
	"fmt"
	"os"
	"os/exec"
	"path/filepath"
	"regexp"
	"runtime"
	"runtime/debug"
	"runtime/pprof"
	"sort"
	"strconv"
	"strings"
	"time"

	"verif/symgo/interp"
)

// repoDir is /repo; $VERIF_REPO points background validation runs at a snapshot
// of it (the registered commands never set it).
var repoDir = func() string {
	if d := os.Getenv("VERIF_REPO"); d != "" {
		return d
	}
	return "/repo"
}()

// verifDir is /verif unless $VERIF_DIR points elsewhere (background runs from a snapshot).
var verifDir = func() string {
	if d := os.Getenv("VERIF_DIR"); d != "" {
		return d
	}
	return "/verif"
}()

// Run is one exploration of one harness function.
type Run struct {
	Name              string
	Pkg               string // import path of the harness package
	Harness           string
	Params            map[string]int64
	Overrides         map[string]string
	Delay             int
	LIFO              bool
	Race              bool
	MapOrder          bool // fork over the iteration orders of small maps
	MaxPaths          int64
	MaxSteps          int64
	MaxDepth          int
	MaxEnum           int
	Reach             []string // vacuity witnesses: tags that must be reached on some path
	Budget            time.Duration
	BudgetIsViolation bool
	StopAfter         int // stop the run after this many violations (it is broken anyway)
}

// Property describes how one property is decided.
type Property struct {
	ID            string
	Patterns      []string // extra packages loaded with syntax
	HarnessDirs   []string // directories (relative to /repo) that receive harness overlays
	Runs          func(tier string) []Run
	Bounds        func(tier string) map[string]interface{}
	Outside       []string
	Assumptions   []string
	ReplayTags    string            // extra build tags for native replay (e.g. "sqlite")
	NoReplay      map[string]string // harness -> reason why native replay is not possible
	Preflight     [][2]string       // native tests {test name, package} that must pass before the symbolic runs count (model = real code's output)
	RepeatNative  bool              // counterexamples may depend on goroutine scheduling: a native replay that does not reproduce is repeated (go test -count=200 -failfast)
	OnlyMsgPrefix string            // only violations whose message starts with this belong to the property (harnesses shared with another property)
}

var registry = map[string]*Property{}

func register(p *Property) { registry[p.ID] = p }

// commonPatterns are always loaded with syntax so that their bodies can be
// interpreted.
var commonPatterns = []string{
	"strings", "unicode/utf8", "unicode", "strconv", "errors", "context", "sort", "slices", "maps", "cmp",
	"bytes", "net/url", "sync/atomic", "math/bits", "internal/stringslite", "iter", "math",
	"github.com/ory/herodot", "github.com/pkg/errors", "github.com/gofrs/uuid",
	"golang.org/x/sync/errgroup", "github.com/ory/x/pointerx",
}

type knownFinding struct {
	Property string `json:"property"`
	Harness  string `json:"harness,omitempty"`
	Kind     string `json:"kind,omitempty"`
	Msg      string `json:"msg_contains,omitempty"`
	Tag      string `json:"tag,omitempty"`
	TagRe    string `json:"tag_regexp,omitempty"`
	What     string `json:"what"`
	ID       string `json:"id"`
}

type knownFile struct {
	Findings []knownFinding `json:"findings"`
	Fixed    []string       `json:"fixed"`
}

func loadKnown() knownFile {
	var k knownFile
	b, err := os.ReadFile(filepath.Join(verifDir, "known_findings.json"))
	if err != nil {
		return k
	}
	if err := json.Unmarshal(b, &k); err != nil {
		fmt.Fprintln(os.Stderr, "known_findings.json:", err)
		os.Exit(2)
	}
	return k
}

func (k knownFinding) matches(prop string, v interp.Violation) bool {
	if k.Property != prop {
		return false
	}
	if k.Harness != "" && k.Harness != v.Harness {
		return false
	}
	if k.Kind != "" && k.Kind != v.Kind {
		return false
	}
	if k.Msg != "" && !strings.Contains(v.Msg, k.Msg) {
		return false
	}
	if k.Tag != "" && k.Tag != v.Tag {
		return false
	}
	if k.TagRe != "" {
		re, err := regexp.Compile(k.TagRe)
		if err != nil || !re.MatchString(v.Tag) {
			return false
		}
	}
	return true
}

func buildOverlay(dirs []string, work string) (map[string][]byte, map[string]string, map[string][]string, error) {
	overlay := map[string][]byte{}
	replace := map[string]string{} // for go test -overlay
	harnessFns := map[string][]string{}
	tmpl, err := os.ReadFile(filepath.Join(verifDir, "harness/_api/zz_verif_api.go.tmpl"))
	if err != nil {
		return nil, nil, nil, err
	}
	for _, d := range dirs {
		src := filepath.Join(verifDir, "harness", d)
		ents, err := os.ReadDir(src)
		if err != nil {
			return nil, nil, nil, err
		}
		pkgName := ""
		var fns []string
		for _, e := range ents {
			if !strings.HasSuffix(e.Name(), ".go") {
				continue
			}
			b, err := os.ReadFile(filepath.Join(src, e.Name()))
			if err != nil {
				return nil, nil, nil, err
			}
			dst := filepath.Join(repoDir, d, e.Name())
			overlay[dst] = b
			replace[dst] = filepath.Join(src, e.Name())
			if strings.HasSuffix(e.Name(), "_test.go") {
				continue
			}
			if m := regexp.MustCompile(`(?m)^package (\w+)`).FindSubmatch(b); m != nil && pkgName == "" {
				pkgName = string(m[1])
			}
			for _, m := range regexp.MustCompile(`(?m)^func (Harness\w+)\(\)`).FindAllSubmatch(b, -1) {
				fns = append(fns, string(m[1]))
			}
		}
		if pkgName == "" {
			return nil, nil, nil, fmt.Errorf("no harness files in %s", src)
		}
		api := []byte(strings.Replace(string(tmpl), "PKGNAME", pkgName, 1))
		dst := filepath.Join(repoDir, d, "zz_verif_api.go")
		overlay[dst] = api
		if work != "" {
			f := filepath.Join(work, strings.ReplaceAll(d, "/", "_")+"_zz_verif_api.go")
			os.WriteFile(f, api, 0o644)
			replace[dst] = f
			// replay test
			var sb strings.Builder
			sb.WriteString("//go:build verif\n\npackage " + pkgName + "\n\nimport (\n\t\"os\"\n\t\"testing\"\n)\n\n")
			sb.WriteString("func TestVerifReplay(t *testing.T) {\n\ttable := map[string]func(){\n")
			for _, fn := range fns {
				sb.WriteString("\t\t\"" + fn + "\": " + fn + ",\n")
			}
			sb.WriteString("\t}\n\tverifTB = t\n\tf := table[os.Getenv(\"VERIF_HARNESS\")]\n\tif f == nil {\n\t\tt.Skip(\"no such harness here\")\n\t}\n\t// (go test -count=N runs this function N times in one process: start from the first input each time)\n\tverifReplayState.pos = 0\n\tverifReplayState.Failed = nil\n\tf()\n\tif len(verifReplayState.Failed) > 0 {\n\t\tt.Fatalf(\"VERIF-REPLAY-REPRODUCED: %v\", verifReplayState.Failed)\n\t}\n}\n")
			tf := filepath.Join(work, strings.ReplaceAll(d, "/", "_")+"_zz_verif_replay_test.go")
			os.WriteFile(tf, []byte(sb.String()), 0o644)
			replace[filepath.Join(repoDir, d, "zz_verif_replay_test.go")] = tf
		}
		harnessFns[d] = fns
	}
	return overlay, replace, harnessFns, nil
}

type replayFile struct {
	Property      string            `json:"property"`
	Pkg           string            `json:"pkg"`
	Harness       string            `json:"harness"`
	Kind          string            `json:"kind"`
	Msg           string            `json:"msg"`
	Tag           string            `json:"tag"`
	Where         string            `json:"where"`
	Values        []int64           `json:"values"`
	InputSeq      []string          `json:"input_seq"`
	Inputs        map[string]string `json:"inputs"`
	Strs          map[string]string `json:"strs"`
	Params        map[string]int64  `json:"params"`
	Decisions     []interp.Decision `json:"decisions"`
	Notes         []string          `json:"notes,omitempty"`
	Native        string            `json:"native_replay"`
	NativeHarness string            `json:"native_harness,omitempty"`
	Scheduled     bool              `json:"-"`
}

func writeReplay(prop *Property, run Run, v interp.Violation) (string, *replayFile) {
	rf := &replayFile{
		Property: prop.ID, Pkg: run.Pkg, Harness: run.Harness, Kind: v.Kind, Msg: v.Msg, Tag: v.Tag, Where: v.Where,
		Values: v.Values, InputSeq: v.InputSeq, Inputs: v.Inputs, Params: run.Params, Decisions: v.Decisions, Notes: v.Notes,
		Strs: map[string]string{}, Scheduled: prop.RepeatNative,
	}
	if v.ReplayHarness != "" {
		rf.NativeHarness = v.ReplayHarness
	}
	if v.ReplayParams != nil {
		rf.Params = map[string]int64{}
		for k, x := range run.Params {
			rf.Params[k] = x
		}
		for k, x := range v.ReplayParams {
			rf.Params[k] = x
		}
	}
	for name, val := range v.Inputs {
		if strings.HasSuffix(name, "_str") && strings.HasPrefix(val, "\"") {
			// value id -> string
			for k, n := range v.InputSeq {
				if n == name {
					if s, err := strconv.Unquote(val); err == nil {
						rf.Strs[fmt.Sprint(v.Values[k])] = s
					}
				}
			}
		}
	}
	b, _ := json.MarshalIndent(rf, "", " ")
	h := sha256.Sum256(b)
	dir := filepath.Join(verifDir, "replays")
	os.MkdirAll(dir, 0o755)
	path := filepath.Join(dir, fmt.Sprintf("%s-%x.json", prop.ID, h[:6]))
	os.WriteFile(path, b, 0o644)
	return path, rf
}

// nativeReplay runs the harness natively on the recorded inputs against the
// real build. Returns (reproduced, log).
func nativeReplay(prop *Property, rf *replayFile, path string, replace map[string]string, work string) (bool, string) {
	if reason, ok := prop.NoReplay[rf.Harness]; ok {
		return false, "native replay not available: " + reason
	}
	ovPath := filepath.Join(work, "overlay.json")
	b, _ := json.Marshal(map[string]interface{}{"Replace": replace})
	os.WriteFile(ovPath, b, 0o644)
	rel := strings.TrimPrefix(rf.Pkg, "github.com/ory/keto")
	// harness-only packages live in directories that exist only in the overlay;
	// go test needs the directory itself (empty, removed again afterwards)
	if pdir := filepath.Join(repoDir, rel); !dirExists(pdir) {
		if err := os.MkdirAll(pdir, 0o755); err == nil {
			defer os.Remove(pdir)
		}
	}
	tags := "verif"
	if prop.ReplayTags != "" {
		tags += " " + prop.ReplayTags
	}
	cmd := exec.Command("go", "test", "-tags", tags, "-vet=off", "-count=1", "-v", "-timeout", nativeTimeout(rf.Kind), "-overlay", ovPath, "-run", "^TestVerifReplay$", "."+rel)
	cmd.Dir = repoDir
	cmd.Env = append(os.Environ(), "GOFLAGS=-mod=mod", "GOPROXY=off", "VERIF_REPLAY="+path, "VERIF_HARNESS="+nativeHarnessOf(rf))
	lw := &limitedWriter{max: 1 << 20}
	cmd.Stdout, cmd.Stderr = lw, lw
	cmd.Run()
	if rf.Kind == "assert" && !lw.has("VERIF-ASSERT-FAILED") && !lw.has("panic:") && rf.Scheduled {
		// the counterexample took scheduling decisions: run the same inputs repeatedly under the native scheduler
		cmd2 := exec.Command("go", "test", "-tags", tags, "-vet=off", "-count=200", "-failfast", "-v", "-timeout", "280s", "-overlay", ovPath, "-run", "^TestVerifReplay$", "."+rel)
		cmd2.Dir = repoDir
		cmd2.Env = append(os.Environ(), "GOFLAGS=-mod=mod", "GOPROXY=off", "VERIF_REPLAY="+path, "VERIF_HARNESS="+nativeHarnessOf(rf))
		lw = &limitedWriter{max: 1 << 20}
		cmd2.Stdout, cmd2.Stderr = lw, lw
		cmd2.Run()
	}
	s := lw.String()
	if len(s) > 6000 {
		s = s[:3000] + "\n...\n" + s[len(s)-3000:]
	}
	switch rf.Kind {
	case "assert":
		return lw.has("VERIF-ASSERT-FAILED"), s
	case "panic":
		return lw.has("panic:") || lw.has("fatal error:"), s
	case "deadlock":
		return lw.has("test timed out") || lw.has("all goroutines are asleep"), s
	case "budget":
		return lw.has("stack overflow") || lw.has("test timed out") || lw.has("goroutine stack exceeds"), s
	case "leak":
		return lw.has("VERIF-ASSERT-FAILED"), s
	}
	return lw.has("VERIF-ASSERT-FAILED") || lw.has("panic:"), s
}

// runNativeTest runs one native Go test of a harness package (overlay build, tags verif + the property's replay tags).
func runNativeTest(prop *Property, test, pkg string) int {
	work := filepath.Join(verifDir, ".work", fmt.Sprintf("%s-native-%d", prop.ID, os.Getpid()))
	if err := os.MkdirAll(work, 0o755); err != nil {
		fmt.Fprintln(os.Stderr, err)
		return 2
	}
	defer os.RemoveAll(work)
	_, replace, _, err := buildOverlay(prop.HarnessDirs, work)
	if err != nil {
		fmt.Fprintln(os.Stderr, err)
		return 2
	}
	ovPath := filepath.Join(work, "overlay.json")
	b, _ := json.Marshal(map[string]interface{}{"Replace": replace})
	os.WriteFile(ovPath, b, 0o644)
	rel := strings.TrimPrefix(pkg, "github.com/ory/keto")
	if pdir := filepath.Join(repoDir, rel); !dirExists(pdir) {
		if err := os.MkdirAll(pdir, 0o755); err == nil {
			defer os.Remove(pdir)
		}
	}
	tags := "verif"
	if prop.ReplayTags != "" {
		tags += " " + prop.ReplayTags
	}
	cmd := exec.Command("go", "test", "-tags", tags, "-vet=off", "-count=1", "-timeout", "300s", "-overlay", ovPath, "-run", "^"+test+"$", "."+rel)
	cmd.Dir = repoDir
	cmd.Env = append(os.Environ(), "GOFLAGS=-mod=mod", "GOPROXY=off")
	lw := &limitedWriter{max: 1 << 20}
	cmd.Stdout, cmd.Stderr = lw, lw
	err = cmd.Run()
	for _, l := range strings.Split(lw.String(), "\n") {
		if !strings.Contains(l, "level=info") {
			fmt.Println(l)
		}
	}
	if err != nil {
		return 1
	}
	return 0
}

type evidence struct {
	PropertyID  string                 `json:"property_id"`
	Tier        string                 `json:"tier"`
	Seed        int                    `json:"seed"`
	Level       string                 `json:"level"`
	Coverage    map[string]interface{} `json:"coverage"`
	Assumptions []string               `json:"assumptions"`
	WallS       float64                `json:"wall_s"`
	Violations  int                    `json:"violations"`
}

func main() {
	if g := os.Getenv("VERIF_GOGC"); g != "" {
		n, _ := strconv.Atoi(g)
		debug.SetGCPercent(n)
	} else {
		debug.SetGCPercent(200)
	}
	if len(os.Args) < 2 {
		fmt.Fprintln(os.Stderr, "usage: vcheck <property|dev|list> [flags]")
		os.Exit(2)
	}
	id := os.Args[1]
	fs := flag.NewFlagSet("vcheck", flag.ExitOnError)
	tier := fs.String("tier", "", "quick|thorough")
	replay := fs.String("replay", "", "replay file")
	workers := fs.Int("workers", 0, "worker count (default: cores)")
	solver := fs.String("solver", "z3-new", "solver binary")
	pkg := fs.String("pkg", "", "dev: harness package import path")
	dir := fs.String("dir", "", "dev: harness dir(s) relative to repo, comma separated")
	fn := fs.String("fn", "", "dev: harness function")
	patterns := fs.String("patterns", "", "dev: extra patterns, comma separated")
	trace := fs.Bool("trace", false, "trace interpreter")
	delay := fs.Int("delay", 0, "dev: delay bound")
	only := fs.String("only", "", "run only the runs whose name contains this")
	maxPaths := fs.Int64("max-paths", 0, "dev: path budget")
	race := fs.Bool("race", false, "dev: race analysis")
	mapOrder := fs.Bool("map-order", false, "dev: fork over iteration orders of small maps")
	noReplay := fs.Bool("no-native", false, "skip native replay (debug)")
	replayTags := fs.String("replay-tags", "", "dev: extra build tags for native replay")
	like := fs.String("like", "", "dev: take patterns, harness dirs, overrides and package from this property's first run")
	var params multiFlag
	fs.Var(&params, "param", "dev: k=v")
	var ovr multiFlag
	fs.Var(&ovr, "override", "dev: from=to")
	cpuprof := fs.String("cpuprofile", "", "write cpu profile")
	nativeTest := fs.String("native-test", "", "run this native test of the harness package given by --pkg (overlay build), instead of the check")
	fs.Parse(os.Args[2:])
	if *cpuprof != "" {
		f, _ := os.Create(*cpuprof)
		pprof.StartCPUProfile(f)
		defer pprof.StopCPUProfile()
	}
	if *tier == "" {
		*tier = os.Getenv("VERIF_TIER")
		if *tier == "" {
			*tier = "quick"
		}
	}
	if *workers == 0 {
		*workers = runtime.NumCPU()
	}
	if id == "list" {
		var ids []string
		for k := range registry {
			ids = append(ids, k)
		}
		sort.Strings(ids)
		fmt.Println(strings.Join(ids, " "))
		return
	}
	var prop *Property
	if id == "dev" {
		pm := map[string]int64{}
		for _, p := range params {
			kv := strings.SplitN(p, "=", 2)
			v, _ := strconv.ParseInt(kv[1], 10, 64)
			pm[kv[0]] = v
		}
		om := map[string]string{}
		for _, p := range ovr {
			kv := strings.SplitN(p, "=", 2)
			om[kv[0]] = kv[1]
		}
		prop = &Property{ID: "DEV", HarnessDirs: strings.Split(*dir, ","), ReplayTags: *replayTags,
			Runs: func(string) []Run {
				return []Run{{Name: "dev", Pkg: *pkg, Harness: *fn, Params: pm, Overrides: om, Delay: *delay, MaxPaths: *maxPaths, Race: *race, MapOrder: *mapOrder}}
			}}
		if *patterns != "" {
			prop.Patterns = strings.Split(*patterns, ",")
		}
		if *like != "" {
			lp := registry[*like]
			if lp == nil {
				fmt.Fprintln(os.Stderr, "unknown property", *like)
				os.Exit(2)
			}
			first := lp.Runs(*tier)[0]
			prop.Patterns, prop.HarnessDirs, prop.ReplayTags = lp.Patterns, lp.HarnessDirs, lp.ReplayTags
			for k, v := range first.Overrides {
				if _, ok := om[k]; !ok {
					om[k] = v
				}
			}
			for k, v := range first.Params {
				if _, ok := pm[k]; !ok {
					pm[k] = v
				}
			}
			lpkg := first.Pkg
			if *pkg == "" {
				*pkg = lpkg
			}
		}
	} else {
		prop = registry[id]
		if prop == nil {
			fmt.Fprintln(os.Stderr, "unknown property", id)
			os.Exit(2)
		}
	}
	if *nativeTest != "" {
		// vcheck <ID> --native-test <TestName> --pkg <import path>: run a native test of a harness package through the overlay
		os.Exit(runNativeTest(prop, *nativeTest, *pkg))
	}
	code := runProperty(prop, *tier, *replay, *workers, *solver, *trace, *only, *noReplay)
	pprof.StopCPUProfile()
	os.Exit(code)
}

type multiFlag []string

func (m *multiFlag) String() string     { return strings.Join(*m, ",") }
func (m *multiFlag) Set(s string) error { *m = append(*m, s); return nil }

func runProperty(prop *Property, tier, replayPath string, workers int, solver string, trace bool, only string, skipNative bool) int {
	t0 := time.Now()
	work := filepath.Join(verifDir, ".work", fmt.Sprintf("%s-%d", prop.ID, os.Getpid()))
	os.MkdirAll(work, 0o755)
	defer os.RemoveAll(work)

	overlay, replace, _, err := buildOverlay(prop.HarnessDirs, work)
	if err != nil {
		fmt.Fprintln(os.Stderr, "overlay:", err)
		return 2
	}
	pats := append([]string{}, commonPatterns...)
	pats = append(pats, prop.Patterns...)
	for _, d := range prop.HarnessDirs {
		pats = append(pats, "github.com/ory/keto/"+d)
	}
	w, err := interp.Load(interp.LoadConfig{RepoDir: repoDir, Patterns: pats, Overlay: overlay, Tags: "verif"})
	if err != nil {
		fmt.Fprintln(os.Stderr, "load:", err)
		return 2
	}
	w.BuildFnIndex()
	fmt.Printf("[%s] loaded and built SSA from %s in %.1fs\n", prop.ID, repoDir, w.LoadTime.Seconds())

	runs := prop.Runs(tier)
	if replayPath != "" {
		b, err := os.ReadFile(replayPath)
		if err != nil {
			fmt.Fprintln(os.Stderr, err)
			return 2
		}
		var rf replayFile
		if err := json.Unmarshal(b, &rf); err != nil {
			fmt.Fprintln(os.Stderr, err)
			return 2
		}
		// symbolic replay of the recorded decision vector, then native replay
		var run Run
		found := false
		for _, r := range runs {
			if r.Harness == rf.Harness {
				run, found = r, true
				break
			}
		}
		if !found {
			run = Run{Name: "replay", Pkg: rf.Pkg, Harness: rf.Harness}
		}
		run.Params = rf.Params
		cfg := mkConfig(run, 1, solver, trace)
		cfg.ReplayDecisions = rf.Decisions
		if cfg.ReplayDecisions == nil {
			cfg.ReplayDecisions = []interp.Decision{}
		}
		res := w.Explore(cfg)
		fmt.Println(res.Summary())
		for _, v := range res.Violations {
			fmt.Printf("symbolic replay: %s: %s [tag %s]\n", v.Kind, v.Msg, v.Tag)
		}
		ok, log := nativeReplay(prop, &rf, replayPath, replace, work)
		fmt.Println(log)
		if ok || len(res.Violations) > 0 {
			fmt.Printf("VIOLATION property=%s replay=%s\n", prop.ID, replayPath)
			return 1
		}
		return 0
	}

	known := loadKnown()
	ev := evidence{PropertyID: prop.ID, Tier: tier, Level: "model_checking", Coverage: map[string]interface{}{}}
	if s := os.Getenv("VERIF_SEED"); s != "" {
		ev.Seed, _ = strconv.Atoi(s)
	}
	var (
		totalPaths, totalDecisions, totalQueries, totalObl, totalDis, totalChoices int64
		solverS                                                                    float64
		funcs                                                                      = map[string]bool{}
		stubs                                                                      = map[string]int64{}
		samples                                                                    []interface{}
		runSummaries                                                               []interface{}
		inconclusive                                                               []string
		exhaustive                                                                 = true
		nativeReplays                                                              int
		newViolations                                                              []string
		knownHit                                                                   = map[string]string{}
		knownConfirmed                                                             = []string{}
		allViolations                                                              int
		otherPropertyEvents                                                        int
	)
	if !skipNative && only == "" {
		for _, pf := range prop.Preflight {
			t0 := time.Now()
			if rc := runNativeTest(prop, pf[0], pf[1]); rc != 0 {
				inconclusive = append(inconclusive, fmt.Sprintf("native pre-flight %s in %s failed: the harness's model of the configuration differs from what the real code produces", pf[0], pf[1]))
			} else {
				fmt.Printf("[%s] native pre-flight %s passed (%.1fs)\n", prop.ID, pf[0], time.Since(t0).Seconds())
			}
			nativeReplays++
		}
	}
	for _, run := range runs {
		if only != "" && !strings.Contains(run.Name, only) {
			continue
		}
		cfg := mkConfig(run, workers, solver, trace)
		cfg.StopAfterNew = int(pick(tier, 1, 10))
		cfg.IsKnown = func(v interp.Violation) bool {
			if prop.OnlyMsgPrefix != "" && !strings.HasPrefix(v.Msg, prop.OnlyMsgPrefix) {
				return true
			}
			for n := range known.Findings {
				if known.Findings[n].matches(prop.ID, v) {
					return true
				}
			}
			return false
		}
		res := w.Explore(cfg)
		fmt.Printf("[%s/%s] %s\n", prop.ID, run.Name, res.Summary())
		totalPaths += res.Completed
		totalDecisions += res.Decisions
		totalChoices += res.Choices
		totalQueries += res.Queries
		totalObl += res.Obligations
		totalDis += res.Discharged
		solverS += res.SolverTime.Seconds()
		for f := range res.Functions {
			funcs[f] = true
		}
		for s, n := range res.Stubs {
			stubs[s] += n
		}
		for _, s := range res.Samples {
			if len(samples) < 8 {
				samples = append(samples, map[string]interface{}{"run": run.Name, "path_inputs": s})
			}
		}
		if !res.Exhaustive {
			exhaustive = false
		}
		for k, n := range res.Unsupported {
			inconclusive = append(inconclusive, fmt.Sprintf("%s: unsupported x%d: %s", run.Name, n, k))
		}
		for k, n := range res.Budget {
			inconclusive = append(inconclusive, fmt.Sprintf("%s: budget x%d: %s", run.Name, n, k))
		}
		for k, n := range res.Inconclusive {
			inconclusive = append(inconclusive, fmt.Sprintf("%s: solver x%d: %s", run.Name, n, k))
		}
		for _, tag := range run.Reach {
			if res.Reached[tag] == 0 {
				inconclusive = append(inconclusive, fmt.Sprintf("%s: vacuity witness %q was never reached", run.Name, tag))
			}
		}
		rs := map[string]interface{}{
			"run": run.Name, "harness": run.Pkg + "." + run.Harness, "params": run.Params, "delay_bound": run.Delay,
			"paths_completed": res.Completed, "paths_infeasible": res.Infeasible, "paths_assumed_away": res.Assumed,
			"solver_decided_branches": res.Decisions, "fork_choices": res.Choices, "queries": res.Queries,
			"solver_s": round2(res.SolverTime.Seconds()), "obligations": res.Obligations, "discharged": res.Discharged,
			"violations": res.TotalViolations, "reached": res.Reached, "wall_s": round2(res.Wall.Seconds()),
			"exhaustive": res.Exhaustive, "interpreted_instructions": res.Steps,
		}
		if len(res.Covers) > 0 {
			rs["covers"] = res.Covers
		}
		runSummaries = append(runSummaries, rs)

		// triage violations: group by (kind,msg,tag); replay one representative per group
		groups := map[string][]interp.Violation{}
		var order []string
		for _, v := range res.Violations {
			if prop.OnlyMsgPrefix != "" && !strings.HasPrefix(v.Msg, prop.OnlyMsgPrefix) {
				otherPropertyEvents++
				continue
			}
			k := v.Kind + "|" + v.Msg + "|" + v.Tag
			if _, ok := groups[k]; !ok {
				order = append(order, k)
			}
			groups[k] = append(groups[k], v)
		}
		sort.Strings(order)
		for _, k := range order {
			vs := groups[k]
			v := vs[0]
			allViolations += int(res.ViolationCounts[k])
			var kf *knownFinding
			for n := range known.Findings {
				if known.Findings[n].matches(prop.ID, v) {
					kf = &known.Findings[n]
					break
				}
			}
			path, rf := writeReplay(prop, run, v)
			if kf != nil {
				if _, seen := knownHit[kf.ID]; !seen {
					knownHit[kf.ID] = fmt.Sprintf("KNOWN-FINDING: property=%s %s [%s; witness %s]", prop.ID, kf.What, kf.ID, path)
					// thorough tier: the recorded finding's current witness is confirmed against the real build
					if _, no := prop.NoReplay[run.Harness]; tier == "thorough" && !skipNative && !no && v.Kind != "race" {
						ok, log := nativeReplay(prop, rf, path, replace, work)
						nativeReplays++
						if ok {
							knownConfirmed = append(knownConfirmed, kf.ID)
						} else {
							inconclusive = append(inconclusive, fmt.Sprintf("%s: witness of recorded finding %s did not reproduce natively (machinery suspect); see %s", run.Name, kf.ID, path))
							fmt.Println("  native replay of the recorded finding's witness did NOT reproduce:\n" + indent(log))
						}
					}
				}
				if len(samples) < 12 {
					samples = append(samples, map[string]interface{}{"run": run.Name, "known_finding": kf.ID, "counterexample_inputs": v.Inputs, "msg": v.Msg, "tag": v.Tag})
				}
				continue
			}
			// unknown violation: confirm natively before reporting
			reproduced, log := false, "native replay skipped"
			if !skipNative {
				reproduced, log = nativeReplay(prop, rf, path, replace, work)
				nativeReplays++
			}
			rf.Native = log
			b, _ := json.MarshalIndent(rf, "", " ")
			os.WriteFile(path, b, 0o644)
			fmt.Printf("[%s/%s] counterexample (%d paths): %s: %s [tag %q] at %s\n  inputs: %v\n", prop.ID, run.Name, res.ViolationCounts[k], v.Kind, v.Msg, v.Tag, v.Where, compactInputs(v))
			for _, n := range v.Notes {
				fmt.Println("  note:", n)
			}
			if reproduced || skipNative {
				newViolations = append(newViolations, fmt.Sprintf("VIOLATION property=%s replay=%s", prop.ID, path))
			} else if _, no := prop.NoReplay[run.Harness]; no {
				// cannot be replayed natively by construction: report with the interpreter trace
				newViolations = append(newViolations, fmt.Sprintf("VIOLATION property=%s replay=%s", prop.ID, path))
			} else {
				inconclusive = append(inconclusive, fmt.Sprintf("%s: counterexample did not reproduce natively (machinery suspect): %s: %s; see %s", run.Name, v.Kind, v.Msg, path))
				fmt.Println("  native replay did NOT reproduce:\n" + indent(log))
			}
		}
	}
	var fl []string
	for f := range funcs {
		fl = append(fl, f)
	}
	sort.Strings(fl)
	var sl []string
	for s, n := range stubs {
		sl = append(sl, fmt.Sprintf("%s (x%d)", s, n))
	}
	sort.Strings(sl)
	if len(samples) == 0 {
		samples = append(samples, map[string]interface{}{"note": "no symbolic inputs on completed paths"})
	}
	var kh []string
	for _, s := range knownHit {
		kh = append(kh, s)
	}
	sort.Strings(kh)
	ev.Coverage = map[string]interface{}{
		"states":                            max64(totalPaths, 0),
		"transitions":                       totalDecisions + totalChoices,
		"traces_validated_against_impl":     nativeReplays,
		"samples":                           samples,
		"obligations":                       totalObl,
		"discharged":                        totalDis,
		"queries":                           totalQueries,
		"solver_s":                          round2(solverS),
		"solver":                            solver,
		"functions_encoded":                 fl,
		"source_sha256":                     w.FileHashes,
		"stubs":                             sl,
		"runs":                              runSummaries,
		"exhaustive":                        exhaustive && len(inconclusive) == 0,
		"inconclusive":                      inconclusive,
		"known_findings_reported":           kh,
		"known_findings_confirmed_natively": knownConfirmed,
		"outside_the_claim":                 prop.Outside,
		"events_belonging_to_other_properties_ignored": otherPropertyEvents,
		"explanation": "bounded symbolic execution of go/ssa lowered from /repo's working tree; states = symbolic paths completed, transitions = solver-decided branches + fork choices",
	}
	if prop.Bounds != nil {
		ev.Coverage["bounds"] = prop.Bounds(tier)
	}
	ev.Assumptions = prop.Assumptions
	if ev.Assumptions == nil {
		ev.Assumptions = []string{}
	}
	ev.WallS = round2(time.Since(t0).Seconds())
	ev.Violations = allViolations
	if prop.ID != "DEV" && os.Getenv("VERIF_NO_EVIDENCE") == "" {
		os.MkdirAll(filepath.Join(verifDir, "evidence"), 0o755)
		b, _ := json.MarshalIndent(ev, "", " ")
		os.WriteFile(filepath.Join(verifDir, "evidence", prop.ID+".json"), b, 0o644)
	}
	for _, s := range kh {
		fmt.Println(s)
	}
	if len(newViolations) > 0 {
		for _, s := range newViolations {
			fmt.Println(s)
		}
		return 1
	}
	if len(inconclusive) > 0 {
		for _, s := range inconclusive {
			fmt.Println("INCONCLUSIVE:", s)
		}
		return 2
	}
	fmt.Printf("[%s] held on everything explored (%d paths, %d obligations, %.1fs)\n", prop.ID, totalPaths, totalObl, time.Since(t0).Seconds())
	return 0
}

// limitedWriter keeps the first and the last max bytes of what is written
// (a crashing replay can print hundreds of megabytes of stack trace).
// nativeTimeout: a non-termination witness is confirmed by the real code still
// running after 40 s on a graph of at most three rows
func nativeTimeout(kind string) string {
	if kind == "budget" {
		return "40s"
	}
	return "120s"
}

type limitedWriter struct {
	max  int
	head []byte
	tail []byte
	n    int
	seen map[string]bool // markers found anywhere in the stream, also in the part that is dropped
	prev []byte
}

var replayMarkers = []string{"VERIF-ASSERT-FAILED", "panic:", "fatal error:", "test timed out", "all goroutines are asleep", "stack overflow", "goroutine stack exceeds"}

func (w *limitedWriter) has(m string) bool { return w.seen[m] }

func (w *limitedWriter) Write(p []byte) (int, error) {
	w.n += len(p)
	if w.seen == nil {
		w.seen = map[string]bool{}
	}
	win := append(w.prev, p...)
	for _, m := range replayMarkers {
		if !w.seen[m] && bytes.Contains(win, []byte(m)) {
			w.seen[m] = true
		}
	}
	if len(win) > 64 {
		win = win[len(win)-64:]
	}
	w.prev = append([]byte{}, win...)
	if room := w.max - len(w.head); room > 0 {
		k := len(p)
		if k > room {
			k = room
		}
		w.head = append(w.head, p[:k]...)
		p2 := p[k:]
		w.tail = append(w.tail, p2...)
	} else {
		w.tail = append(w.tail, p...)
	}
	if len(w.tail) > w.max {
		w.tail = w.tail[len(w.tail)-w.max:]
	}
	return len(p), nil
}

func (w *limitedWriter) String() string {
	if len(w.tail) == 0 {
		return string(w.head)
	}
	return string(w.head) + "\n...\n" + string(w.tail)
}

func dirExists(p string) bool {
	st, err := os.Stat(p)
	return err == nil && st.IsDir()
}

func nativeHarnessOf(rf *replayFile) string {
	if rf.NativeHarness != "" {
		return rf.NativeHarness
	}
	return rf.Harness
}

func compactInputs(v interp.Violation) string {
	var sb strings.Builder
	for k, n := range v.InputSeq {
		if k > 40 {
			sb.WriteString(" ...")
			break
		}
		fmt.Fprintf(&sb, " %s=%s", n, v.Inputs[n])
	}
	return sb.String()
}

func indent(s string) string {
	return "    " + strings.ReplaceAll(strings.TrimSpace(s), "\n", "\n    ")
}

func round2(f float64) float64 { return float64(int64(f*100)) / 100 }

func max64(a, b int64) int64 {
	if a > b {
		return a
	}
	return b
}

func mkConfig(run Run, workers int, solver string, trace bool) interp.Config {
	cfg := interp.Config{
		Harness: run.Harness, HarnessPkg: run.Pkg, Params: run.Params, Overrides: run.Overrides,
		DelayBound: run.Delay, SchedLIFO: run.LIFO, Workers: workers, SolverBin: solver, Trace: trace,
		MaxPaths: run.MaxPaths, MaxSteps: run.MaxSteps, MaxDepth: run.MaxDepth, MaxEnum: run.MaxEnum, Race: run.Race, MapOrderFork: run.MapOrder,
		BudgetIsViolation: run.BudgetIsViolation, StopAfterViolations: run.StopAfter,
	}
	if trace {
		cfg.Workers = 1
	}
	if run.Budget > 0 {
		cfg.Deadline = time.Now().Add(run.Budget)
	}
	return cfg
}
