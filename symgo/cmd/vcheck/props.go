package main

import "time"

const (
	pkgKetoapi = "github.com/ory/keto/ketoapi"
	pkgSchema  = "github.com/ory/keto/internal/schema"
	pkgRts     = "github.com/ory/keto/proto/ory/keto/relation_tuples/v1alpha2"
	pkgOpl     = "github.com/ory/keto/proto/ory/keto/opl/v1alpha1"
	pkgAst     = "github.com/ory/keto/internal/namespace/ast"
	pkgNs      = "github.com/ory/keto/internal/namespace"
)

func pick(tier string, q, t int64) int64 {
	if tier == "thorough" {
		return t
	}
	return q
}

var lexerOverride = map[string]string{
	"(*github.com/ory/keto/internal/schema.lexer).nextNonCommentItem": "verifNextToken",
}

func init() {
	register(&Property{
		ID:          "C18",
		Patterns:    []string{pkgRts},
		HarnessDirs: []string{"ketoapi"},
		Runs: func(tier string) []Run {
			c := pick(tier, 2, 3)
			n := pick(tier, 8, 10)
			return []Run{
				{Name: "string-roundtrip-subject-id", Pkg: pkgKetoapi, Harness: "HarnessC18StringRoundTripID", Params: map[string]int64{"cap": c + 1}, Reach: []string{"c18.id.decoded"}},
				{Name: "string-roundtrip-subject-set", Pkg: pkgKetoapi, Harness: "HarnessC18StringRoundTripSet", Params: map[string]int64{"cap": c}, Reach: []string{"c18.set.decoded"}},
				{Name: "string-decode-stable", Pkg: pkgKetoapi, Harness: "HarnessC18StringStable", Params: map[string]int64{"n": n}, Reach: []string{"c18.stable.accepted", "c18.stable.rejected"}},
				{Name: "proto-tuple", Pkg: pkgKetoapi, Harness: "HarnessC18ProtoTuple", Reach: []string{"c18.proto.tuple"}},
				{Name: "proto-query", Pkg: pkgKetoapi, Harness: "HarnessC18ProtoQuery", Reach: []string{"c18.proto.query"}},
				{Name: "url-tuple", Pkg: pkgKetoapi, Harness: "HarnessC18URLTuple", Reach: []string{"c18.url.tuple"}},
				{Name: "url-query", Pkg: pkgKetoapi, Harness: "HarnessC18URLQuery", Reach: []string{"c18.url.query"}},
				{Name: "url-subject-set", Pkg: pkgKetoapi, Harness: "HarnessC18URLSubjectSet", Reach: []string{"c18.url.set"}},
			}
		},
		Bounds: func(tier string) map[string]interface{} {
			return map[string]interface{}{
				"string form, round trip": "every field of length 0.." + itoa(pick(tier, 2, 3)) + " (subject-id tuples: 0.." + itoa(pick(tier, 3, 4)) + "), all byte values, every combination of field lengths (lengths by forking, bytes symbolic)",
				"string form, decode":     "every byte string of length 0.." + itoa(pick(tier, 8, 10)),
				"proto and URL legs":      "opaque symbolic strings (any length and content), every nil/non-nil shape of the optional fields",
			}
		},
		Outside: []string{"JSON leg (encoding/json is reflection driven)", "string fields longer than the bound", "net/url percent-encoding of the values on the wire (url.Values is used as a map)"},
		Assumptions: []string{
			"documented domain of the string form: namespace without ':', object without '#', relation without '@', subject id without ':' and not starting/ending with a parenthesis; subject set namespace without ':' '#' and no leading parenthesis, object without '#', no trailing parenthesis",
			"pkg/errors.WithStack modelled as identity (no stack capture)",
		},
	})

	register(&Property{
		ID:          "C10",
		Patterns:    []string{pkgAst, pkgNs},
		HarnessDirs: []string{"internal/schema"},
		Runs: func(tier string) []Run {
			return []Run{
				{Name: "expression-tokens", Pkg: pkgSchema, Harness: "HarnessC10Tokens", Params: map[string]int64{"L": pick(tier, 9, 12), "viable": 1}, Overrides: lexerOverride, Reach: []string{"c10.reference-accepts"}},
				{Name: "expression-tokens-unrestricted", Pkg: pkgSchema, Harness: "HarnessC10Tokens", Params: map[string]int64{"L": pick(tier, 5, 7), "viable": 0}, Overrides: lexerOverride, Reach: []string{"c10.reference-accepts"}},
				{Name: "nesting-limit", Pkg: pkgSchema, Harness: "HarnessC10Nesting", Overrides: lexerOverride, Reach: []string{"c10.reference-accepts"}},
				{Name: "spellings", Pkg: pkgSchema, Harness: "HarnessC10Spellings", Params: map[string]int64{"full": pick(tier, 0, 1)}, Reach: []string{"c10.spelling.parsed"}},
			}
		},
		Bounds: func(tier string) map[string]interface{} {
			return map[string]interface{}{
				"expression tokens": "every expression of the reference grammar of at most " + itoa(pick(tier, 9, 12)) + " tokens over {A,B,C,&&,||,!,(,)} (atoms = this.related.x.includes(ctx.subject)): token choice by forking over the tokens that keep the prefix inside the grammar, the 8 valuations of the atoms by one solver query per expression; in addition every token sequence (in or outside the grammar) of at most " + itoa(pick(tier, 5, 7)) + " tokens",
				"nesting":           "chains of 1..11 nested '(' and '!'",
				"spellings":         "variant space of the syntactic sites enumerated by forking, concrete text through the real lexer",
			}
		},
		Outside:     []string{"expressions longer than the token bound", "traverse atoms inside the symbolic part (covered concretely by the spellings run)"},
		Assumptions: []string{"reference semantics: TypeScript boolean operators with ! > && > || and parentheses", "keto's rewrite AST evaluated as the check engine combines results (or = any, and = all, invert = not)"},
	})

	register(&Property{
		ID:          "C12",
		Patterns:    []string{pkgAst, pkgNs, pkgOpl, pkgKetoapi},
		HarnessDirs: []string{"internal/schema"},
		Runs: func(tier string) []Run {
			return []Run{
				{Name: "lexer-bytes", Pkg: pkgSchema, Harness: "HarnessC12Lexer", Params: map[string]int64{"n": pick(tier, 3, 5), "alphabet": 0}, Reach: []string{"c12.lexer.eof", "c12.lexer.error"}},
				{Name: "parse-bytes", Pkg: pkgSchema, Harness: "HarnessC12ParseBytes", Params: map[string]int64{"n": pick(tier, 3, 4), "alphabet": 0}, Reach: []string{"c12.parse.accepted", "c12.parse.rejected"}},
				{Name: "error-rendering", Pkg: pkgSchema, Harness: "HarnessC12ErrorRendering", Params: map[string]int64{"n": pick(tier, 3, 5)}, Reach: []string{"c12.render"}},
				{Name: "endpoints-agree", Pkg: pkgSchema, Harness: "HarnessC12Endpoints", Params: map[string]int64{"n": pick(tier, 3, 4), "alphabet": 1}, Overrides: map[string]string{"io.ReadAll": "verifReadAll"}, Reach: []string{"c12.endpoints"}},
				{Name: "invalid-utf8-literal-at-every-token", Pkg: pkgSchema, Harness: "HarnessC12BadLiteralEverywhere", Params: map[string]int64{}, Reach: []string{"c12.bad-literal"}},
				{Name: "pumped-lexemes", Pkg: pkgSchema, Harness: "HarnessC12Pump", Params: map[string]int64{}, Reach: []string{"c12.pump.returned"}},
				{Name: "parser-tokens", Pkg: pkgSchema, Harness: "HarnessC12ParserTokens", Params: map[string]int64{"L": pick(tier, 4, 5)}, Overrides: map[string]string{"(*github.com/ory/keto/internal/schema.lexer).nextNonCommentItem": "verifNextToken12"}, Reach: []string{"c12.tokens.done"}, Budget: time.Duration(pick(tier, 240, 1800)) * time.Second},
			}
		},
		Bounds: func(tier string) map[string]interface{} {
			return map[string]interface{}{
				"lexer":           "every byte string of length 0.." + itoa(pick(tier, 3, 5)) + " (all 256 byte values, symbolic)",
				"parse":           "every byte string of length 0.." + itoa(pick(tier, 3, 4)) + " through Parse and error rendering",
				"error rendering": "inputs of length 0.." + itoa(pick(tier, 3, 5)) + " over {\\n,' ',a,\\t,0xC3,0xA9,0xFF}, every 0 <= Start <= End <= len",
				"endpoints":       "REST and gRPC syntax check on every byte string of length 0.." + itoa(pick(tier, 3, 4)) + " over printable ASCII, blanks, newlines and multi-byte/invalid UTF-8 bytes: same error count and positions as the parser on the submitted document",
				"bad literals":    "a full document of 107 tokens with each token in turn replaced by a quoted name / identifier that is not valid UTF-8 (4 spellings): rejected, and every message is valid UTF-8",
				"pumped lexemes":  "46 lexemes (every single-rune token, operators, identifiers, keywords, string and comment openers, invalid bytes, small token groups) x repetition 19, 20, 21, 22, 41, 64 x separator {none, blank, newline} x 3 prefixes x 3 suffixes, concrete text through the real lexer (items channel of capacity 20) and parser",
				"parser tokens":   "every token sequence of length <= " + itoa(pick(tier, 4, 5)) + " over the token alphabet after 'class N implements Namespace {' (viable prefixes, by forking)",
			}
		},
		Outside:     []string{"longer inputs", "asymptotic linearity (only step counters within the bound are asserted)", "the syntax-check HTTP/gRPC handlers' transport layers"},
		Assumptions: []string{"fmt.Sprintf modelled (messages with symbolic content become opaque strings)", "strings.Builder modelled natively"},
	})
}

const pkgZZ = "github.com/ory/keto/internal/check/zzverif"

var enginePatterns = []string{
	"github.com/ory/keto/internal/check", "github.com/ory/keto/internal/check/checkgroup", "github.com/ory/keto/internal/x/graph",
	pkgNs, pkgAst, "github.com/ory/keto/internal/relationtuple", "github.com/ory/keto/internal/driver/config",
	"github.com/ory/keto/internal/x", pkgKetoapi, "github.com/ory/keto/internal/persistence", "github.com/ory/keto/x/events",
}

var engineAssumptions = []string{
	"reference semantics RefSem: well-founded semantics of the relationship graph computed as a formula over the symbolic rows (alternating fixed point), mode rules as in checkIsAllowed",
	"A1: rows and queries name only declared relations", "A2: no dependency cycle through a negation reachable from the query",
	"storage = MemStore (spec of relationtuple.Manager and Traverser); config getters of *config.Config overridden; logger/tracer no-ops",
	"symmetry: objects and subject ids are interchangeable names",
}

var engineOutside = []string{"stores with more rows, more than one namespace, rewrite depth > 2", "schedules beyond the deterministic scheduler (delay bound 0)", "the SQL persister/traverser (the engine runs on MemStore)"}

var engineOverrides = map[string]string{
	"(*github.com/ory/keto/internal/driver/config.Config).MaxReadDepth":                   "verifCfgMaxReadDepth",
	"(*github.com/ory/keto/internal/driver/config.Config).MaxReadWidth":                   "verifCfgMaxReadWidth",
	"(*github.com/ory/keto/internal/driver/config.Config).StrictMode":                     "verifCfgStrictMode",
	"(*github.com/ory/keto/internal/driver/config.Config).BatchCheckParallelizationLimit": "verifCfgBatchLimit",
	"(*github.com/ory/keto/internal/driver/config.Config).NamespaceManager":               "verifCfgNamespaceManager",
	"github.com/ory/keto/internal/check/checkgroup.UnknownMemberFunc":                     "verifUnknownMemberFunc",
	"github.com/ory/keto/internal/x/graph.CheckAndAddVisited":                             "verifCheckAndAddVisited",
}

// lemmaP: the real sql.Traverser on the database model returns what the
// storage specification (on which the engine harnesses run) returns.
func lemmaP(tier string) Run {
	ov := map[string]string{}
	for k, v := range dbOverrides {
		ov[k] = v
	}
	ov["(*github.com/ory/keto/internal/driver/config.Config).StrictMode"] = "dbCfgStrictMode"
	ov["(*github.com/ory/keto/internal/driver/config.Config).NamespaceManager"] = "dbCfgNamespaceManager"
	return Run{Name: "lemma-P-sql-traverser-refines-storage-spec", Pkg: pkgSQL, Harness: "HarnessC06Traverse", Params: map[string]int64{"K": pick(tier, 3, 4)}, Overrides: ov, Reach: []string{"c06.expansion", "c06.rewrite"}}
}

func engineRun(name, harness string, params map[string]int64) Run {
	for k, v := range map[string]int64{"shapes": 0, "modes": 0, "setSubjects": 0, "alts": 2, "G": 12, "W": 64} {
		if _, ok := params[k]; !ok {
			params[k] = v
		}
	}
	return Run{Name: name, Pkg: pkgZZ, Harness: harness, Params: params, Overrides: engineOverrides}
}

func init() {
	register(&Property{
		ID:          "C01",
		Preflight:   [][2]string{{"TestVerifShapes", pkgZZ}},
		Patterns:    append(append([]string{}, enginePatterns...), sqlPatterns...),
		HarnessDirs: []string{"internal/check/zzverif", "internal/persistence/sql"},
		ReplayTags:  "sqlite",
		Runs: func(tier string) []Run {
			mk := func(name string, fam, k, objs, shapes, modes int64) Run {
				r := engineRun(name, "HarnessC01", map[string]int64{"family": fam, "K": k, "objs": objs, "G": 12, "W": 64, "alts": 2, "setSubjects": 0, "shapes": shapes, "modes": modes})
				r.Reach = []string{"c01.checked"}
				return r
			}
			if tier == "thorough" {
				return []Run{
					mk("plain-and-schemaless", 0, 4, 2, 0, 0),
					mk("operator-pairs", 1, 2, 2, 0, 0),
					mk("operator-set-three-rows", 4, 3, 2, 0, 1),
					mk("and-not-below-expansion", 2, 3, 2, 0, 0),
					lemmaP(tier),
				}
			}
			return []Run{
				mk("plain-and-schemaless", 0, 3, 2, 0, 0),
				mk("operator-set", 4, 2, 2, 0, 0),
				mk("and-not-below-expansion", 2, 3, 2, 2, 1),
				lemmaP(tier),
			}
		},
		Bounds: func(tier string) map[string]interface{} {
			return map[string]interface{}{
				"store":          "K symbolic rows (present flag, object, relation, subject id or subject set all symbolic over the pools); K = 2..3 (quick); thorough: 4 (plain), 2 (every operator pair), 3 (operator set, default mode; && and ! below an expansion) per configuration family",
				"pools":          "one namespace, 2-3 objects, the declared relations and permissions of the configuration, 2 subject ids",
				"configurations": "families of concrete rewrite ASTs: plain/schemaless, every operator pair over includes / traverse / permits, && and ! below a subject-set expansion; default and strict mode",
				"query":          "object o0 and subject u0 without loss of generality (names are only compared for equality), every declared relation",
				"schedules":      "the engine's goroutines under the deterministic run-to-block scheduler, every resolution of ready select cases (delay bound 0)",
			}
		},
		Outside: []string{"stores with more rows, more than two namespaces, rewrite depth > 2", "schedules beyond the deterministic scheduler (delay bound 0)", "data with a dependency cycle through a negation (assumption A2)", "the SQL persister/traverser (the engine runs on MemStore, the in-memory specification of storage)"},
		Assumptions: []string{
			"reference semantics RefSem: well-founded semantics of the relationship graph computed as a formula over the symbolic rows (alternating fixed point), mode rules as in checkIsAllowed",
			"A1: rows and queries name only declared relations", "A2: no dependency cycle through a negation reachable from the query",
			"storage = MemStore (spec of relationtuple.Manager and Traverser); config getters of *config.Config overridden; logger/tracer no-ops",
			"symmetry: objects and subject ids are interchangeable names",
		},
	})
}

func init() {
	register(&Property{
		ID:          "C02",
		Preflight:   [][2]string{{"TestVerifShapes", pkgZZ}},
		NoReplay:    map[string]string{"HarnessC02DepthParam": "strconv.ParseInt is replaced by a stub that exists only under the executor (the counterexample names the number)", "HarnessC02WidthRespected": "the assertion is over the executor's ghost counters (expansion results vs. subject sets followed); natively there is no hook to count them"},
		Patterns:    enginePatterns,
		HarnessDirs: []string{"internal/check/zzverif", "internal/check"},
		ReplayTags:  "sqlite",
		Assumptions: engineAssumptions,
		Outside:     append([]string{"global depths and widths above Gmax/Wmax", "the text-to-number step of the max-depth parameter (strconv.ParseInt is a stub: symbolic digit strings through the real function did not finish beyond 4 digits)"}, engineOutside...),
		Bounds: func(tier string) map[string]interface{} {
			return map[string]interface{}{"rows": 2, "objects": 2, "request depth": "fully symbolic int (64 bit); REST parameter: strconv.ParseInt replaced by a stub returning an arbitrary 64-bit number", "global depth": "1.." + itoa(pick(tier, 3, 4)), "width": "1.." + itoa(pick(tier, 2, 3)), "width accounting": "plain configurations, " + itoa(pick(tier, 3, 4)) + " rows: subject sets followed per expansion <= what max-width allows", "configurations": "operator set (quick) / every operator pair (thorough), both modes"}
		},
		Runs: func(tier string) []Run {
			k := int64(2)
			fam := pick(tier, 4, 1)
			a := engineRun("clamp", "HarnessC02Clamp", map[string]int64{"family": fam, "K": k, "objs": 2, "G": 3, "W": 64, "alts": 2, "setSubjects": 0, "Gmax": pick(tier, 2, 4)})
			a.Reach = []string{"c02.clamp"}
			b := engineRun("fail-closed", "HarnessC02FailClosed", map[string]int64{"family": fam, "K": k, "objs": 2, "G": 3, "W": 64, "alts": 2, "setSubjects": 0, "Gmax": pick(tier, 3, 4), "Wmax": pick(tier, 2, 3), "symbolicDepth": 0})
			b.Reach = []string{"c02.checked"}
			c := engineRun("width-respected", "HarnessC02WidthRespected", map[string]int64{"family": 0, "K": pick(tier, 3, 4), "objs": 2, "G": 3, "W": 64, "alts": 2, "setSubjects": 0, "Gmax": 3, "Wmax": pick(tier, 2, 3), "modes": 1})
			c.Reach = []string{"c02.width"}
			d := Run{Name: "rest-depth-parameter", Pkg: pkgCheck, Harness: "HarnessC02DepthParam", Params: map[string]int64{}, Overrides: map[string]string{"strconv.ParseInt": "verifParseInt"}, Reach: []string{"c02.depth-param"}}
			return []Run{a, b, c, d}
		},
	})
	register(&Property{
		ID:          "C03",
		Patterns:    append(append([]string{}, enginePatterns...), sqlPatterns...),
		HarnessDirs: []string{"internal/check/zzverif", "internal/persistence/sql"},
		ReplayTags:  "sqlite",
		Assumptions: append(append([]string{}, engineAssumptions...), sqlAssumptions...),
		Outside:     append([]string{"batch handlers' mapping of Membership to 'allowed' (covered with the transports, C08)"}, engineOutside...),
		Bounds: func(tier string) map[string]interface{} {
			return map[string]interface{}{"rows": "1 (traversal configurations: 2; thorough: the operator set with 2)", "objects": 2, "failing call": "symbolic k over every storage call position of the fault-free run (+2), transient or persistent (symbolic flag)", "configurations": "operator set (quick) / every operator pair (thorough), both modes",
				"sql layer": "GetRelationTuples / ExistsRelationTuples / TraverseSubjectSetExpansion / TraverseSubjectSetRewrite of the real persister on an arbitrary model table of " + itoa(pick(tier, 2, 3)) + " rows, the 1st, 2nd or 3rd database operation of the call failing"}
		},
		NoReplay: map[string]string{"HarnessC03": "the fault is injected into the storage model; the real persister has no fault hook (the counterexample is reported with the symbolic trace)", "HarnessC03SQLFaults": "fault injection at the pop boundary of the database model"},
		Runs: func(tier string) []Run {
			a := engineRun("fault-at-k", "HarnessC03", map[string]int64{"family": pick(tier, 4, 1), "K": 1, "objs": 2, "G": 12, "W": 64, "alts": 2, "setSubjects": 0})
			a.Reach = []string{"c03.fault-injected"}
			// traversals need two rows to succeed: the traversal configurations with K = 2 in the quick tier as well
			a2 := engineRun("fault-at-k-traversals-two-rows", "HarnessC03", map[string]int64{"family": 5, "K": 2, "objs": 2, "G": 12, "W": 64, "alts": 2, "setSubjects": 0, "modes": pick(tier, 1, 0)})
			a2.Reach = []string{"c03.fault-injected"}
			// Lemma PF: a failing database operation inside one read call of the real SQL layer surfaces as an error
			ov := map[string]string{}
			for k, v := range dbOverrides {
				ov[k] = v
			}
			ov["(*github.com/ory/keto/internal/driver/config.Config).StrictMode"] = "dbCfgStrictMode"
			ov["(*github.com/ory/keto/internal/driver/config.Config).NamespaceManager"] = "dbCfgNamespaceManager"
			b := Run{Name: "lemma-PF-sql-read-calls-propagate-database-errors", Pkg: pkgSQL, Harness: "HarnessC03SQLFaults", Params: map[string]int64{"K": pick(tier, 2, 3)}, Overrides: ov, Reach: []string{"c03.sql.returned", "c03.sql.fault-hit"}}
			if tier == "thorough" {
				a3 := engineRun("fault-at-k-operator-set-two-rows", "HarnessC03", map[string]int64{"family": 4, "K": 2, "objs": 2, "G": 12, "W": 64, "alts": 2, "setSubjects": 0, "modes": 1})
				a3.Reach = []string{"c03.fault-injected"}
				return []Run{a, a2, a3, b}
			}
			return []Run{a, a2, b}
		},
	})
}

func init() {
	register(&Property{
		ID:           "C15",
		RepeatNative: true,
		Patterns:     enginePatterns,
		HarnessDirs:  []string{"internal/check/zzverif"},
		ReplayTags:   "sqlite",
		Assumptions:  engineAssumptions,
		Outside:      append([]string{"cancellation instants other than 'before the call' and 'inside storage call c'", "real-time promptness (only 'returns' is decided)"}, engineOutside...),
		Runs: func(tier string) []Run {
			mk := func(name string, fam, k, g int64) Run {
				r := engineRun(name, "HarnessC15", map[string]int64{"family": fam, "K": k, "objs": 2, "G": g, "maxCalls": pick(tier, 6, 10)})
				r.Reach = []string{"c15.returned"}
				r.BudgetIsViolation = true
				r.MaxDepth = 300
				return r
			}
			return []Run{
				mk("operator-set", 4, pick(tier, 1, 2), 3),
				mk("recursive-permissions", 3, pick(tier, 1, 2), 3),
			}
		},
		Bounds: func(tier string) map[string]interface{} {
			return map[string]interface{}{"rows": pick(tier, 1, 2), "objects": 2, "global depth": 3, "cancellation": "before the call, or inside storage call c for symbolic c <= " + itoa(pick(tier, 6, 10)), "fault": "storage call k fails, k symbolic, transient or persistent", "configurations": "operator set + 5 recursive permission configurations, both modes", "call depth budget": 300}
		},
	})
}

func init() {
	register(&Property{
		ID:          "C09",
		Patterns:    append([]string{"github.com/ory/keto/internal/expand"}, enginePatterns...),
		HarnessDirs: []string{"internal/check/zzverif"},
		ReplayTags:  "sqlite",
		Assumptions: []string{"storage = MemStore (spec of relationtuple.Manager), page size 100 / 1 / 2", "schemaless namespace (no rewrites)", "reference: bounded reachability over the symbolic rows as a formula"},
		Outside:     []string{"more rows / objects than the bound", "nodes with more than 100 children", "ToTree string mapping (C16)", "REST/gRPC expand handlers (C13)"},
		Runs: func(tier string) []Run {
			r := engineRun("expand", "HarnessC09", map[string]int64{"K": 3, "objs": 2, "Gmax": pick(tier, 4, 5), "symbolicDepth": pick(tier, 0, 1), "pageSizes": pick(tier, 2, 3), "crossCheck": 1, "diamond": 0})
			r.Reach = []string{"c09.expanded"}
			d := engineRun("diamonds", "HarnessC09", map[string]int64{"K": 4, "objs": 2, "Gmax": pick(tier, 3, 4), "symbolicDepth": 0, "pageSizes": pick(tier, 1, 2), "crossCheck": 0, "diamond": pick(tier, 1, 0)})
			d.Reach = []string{"c09.expanded"}
			return []Run{r, d}
		},
		Bounds: func(tier string) map[string]interface{} {
			return map[string]interface{}{"rows": pick(tier, 3, 4), "objects": pick(tier, 2, 3), "global depth": "1.." + itoa(pick(tier, 4, 5)), "request depth": []string{"0", "symbolic int"}[pick(tier, 0, 1)], "page sizes": "100, 1" + []string{"", ", 2"}[pick(tier, 0, 1)]}
		},
	})
}

func init() {
	register(&Property{
		ID:          "C11",
		Patterns:    append([]string{pkgSchema, pkgOpl}, enginePatterns...),
		HarnessDirs: []string{"internal/check/zzverif"},
		ReplayTags:  "sqlite",
		Assumptions: []string{"program skeleton User/Group/Doc with choices at every reference site (type of Doc.parents, Group.members, traverse/includes/permits targets, optional relation x on User and Group)", "store conforms to the declared types (subject ids untyped; subject sets must match a declared type)", "storage = MemStore"},
		Outside:     []string{"SubjectSet chains deeper than 2", "programs outside the skeleton"},
		Runs: func(tier string) []Run {
			r := engineRun("typecheck-vs-runtime", "HarnessC11", map[string]int64{"K": pick(tier, 1, 2)})
			r.Reach = []string{"c11.accepted", "c11.undeclared-reference"}
			return []Run{r}
		},
		Bounds: func(tier string) map[string]interface{} {
			return map[string]interface{}{"programs": "2 x 2 x 2 x 5 x 3 x (4 bodies) variants of the skeleton", "rows": pick(tier, 1, 2), "objects": 2, "modes": "default and strict"}
		},
	})
}

func init() {
	register(&Property{
		ID:          "C16",
		Patterns:    append(append([]string{}, enginePatterns...), sqlPatterns...),
		HarnessDirs: []string{"internal/check/zzverif", "internal/persistence/sql"},
		ReplayTags:  "sqlite",
		NoReplay:    map[string]string{"HarnessC16SQLMapping": "keto_uuid_mappings table of the database model (symbolic presence flags, chosen map iteration order)", "HarnessC16SQLLarge": "database model", "HarnessC16SQLTwoNetworks": "database model", "HarnessC16SQLRollback": "database model"},
		Assumptions: []string{"SQL runs: keto_uuid_mappings is a model table (primary key id, ON CONFLICT DO NOTHING / INSERT IGNORE honoured, SELECT ... WHERE id in (?) returns rows in table order); uuid.NewV5 computed natively (SHA-1 injectivity assumed); iter.Pull drains the finite sequence eagerly; every iteration order of the id map with 2..3 entries is a separate path", "engine-side runs: MappingManager replaced by an injective string<->UUID table (stubMapping); equality of the opaque symbolic strings is decided by the solver", "namespaces N and M configured through the real memory namespace manager"},
		Outside:     []string{"batches larger than the bounds", "names outside the adversarial pool in the SQL runs (the SQL code moves strings and never inspects them; the engine-side runs use opaque symbolic strings)", "map iteration orders of maps with more than 3 entries (insertion order only)", "collation / normalisation behaviour of a real database's text column"},
		Runs: func(tier string) []Run {
			a := engineRun("tuples", "HarnessC16Tuples", map[string]int64{"nmax": pick(tier, 2, 3)})
			a.Reach = []string{"c16.mapped"}
			b := engineRun("query", "HarnessC16Query", map[string]int64{})
			b.Reach = []string{"c16.query"}
			c := engineRun("tree", "HarnessC16Tree", map[string]int64{})
			c.Reach = []string{"c16.tree"}
			runs := []Run{a, b, c}
			dialects := []int64{0, 3}
			if tier == "thorough" {
				dialects = []int64{0, 1, 2, 3}
			}
			for _, d := range dialects {
				m := sqlRun("sql-mapping-dialect-"+itoa(d), "HarnessC16SQLMapping", map[string]int64{"nmax": pick(tier, 3, 4), "pool": pick(tier, 4, 7), "dialect": d})
				m.MapOrder = true
				m.Reach = []string{"c16.sql.roundtrip", "c16.sql.read"}
				runs = append(runs, m)
			}
			tn := sqlRun("sql-two-networks-share-the-mapping-table", "HarnessC16SQLTwoNetworks", map[string]int64{"dialect": 0})
			tn.Reach = []string{"c16.sql.two-networks"}
			runs = append(runs, tn)
			rb := sqlRun("sql-write-after-rolled-back-attempt", "HarnessC16SQLRollback", map[string]int64{"dialect": 0})
			rb.Reach = []string{"c16.sql.rollback"}
			runs = append(runs, rb)
			l := sqlRun("sql-batches-around-the-lookup-page", "HarnessC16SQLLarge", map[string]int64{"step": 1, "dialect": 0})
			l.Reach = []string{"c16.sql.large"}
			runs = append(runs, l)
			if tier == "thorough" {
				l2 := sqlRun("sql-batches-of-several-lookup-pages", "HarnessC16SQLLarge", map[string]int64{"step": 50, "dialect": 3})
				l2.Reach = []string{"c16.sql.large"}
				runs = append(runs, l2)
			}
			return runs
		},
		Bounds: func(tier string) map[string]interface{} {
			return map[string]interface{}{"batch size": "0.." + itoa(pick(tier, 2, 3)), "names": "opaque symbolic strings (any length and content) with arbitrary equalities among them", "query shapes": "all 2^3 x 3", "trees": "3-4 nodes",
				"sql mapping": "batches of 1.." + itoa(pick(tier, 3, 4)) + " positions over a pool of " + itoa(pick(tier, 4, 7)) + " adversarial names (empty, NUL bytes, case, Unicode normal forms, blanks) with repeats; table = any subset of the pool's mappings of two networks (symbolic presence); lookup page 1, 2, 3 or default; write+read and read-only; dialects " + map[bool]string{false: "sqlite3, mysql", true: "sqlite3, postgres, cockroach, mysql"}[tier == "thorough"],
				"sql large":   "99..102 distinct names (thorough also 149, 199, 249) x {no repeats, first repeated 3x at the end, all twice interleaved, all twice block-wise} x {empty table, every other mapping present}, default lookup page 100"}
		},
	})
}

const pkgCheck = "github.com/ory/keto/internal/check"

var handlerOverrides = map[string]string{
	"(*github.com/ory/keto/internal/driver/config.Config).MaxReadDepth":                   "verifHCfgMaxReadDepth",
	"(*github.com/ory/keto/internal/driver/config.Config).MaxReadWidth":                   "verifHCfgMaxReadWidth",
	"(*github.com/ory/keto/internal/driver/config.Config).StrictMode":                     "verifHCfgStrictMode",
	"(*github.com/ory/keto/internal/driver/config.Config).BatchCheckParallelizationLimit": "verifHCfgBatchLimit",
	"(*github.com/ory/keto/internal/driver/config.Config).BatchCheckMaxBatchSize":         "verifHCfgMaxBatchSize",
	"(*github.com/ory/keto/internal/driver/config.Config).NamespaceManager":               "verifHCfgNamespaceManager",
	"(*github.com/ory/keto/internal/check.Engine).CheckRelationTuple":                     "verifChk",
	"(*encoding/json.Decoder).Decode":                                                     "verifJSONDecode",
	"(*net/url.URL).Query":                                                                "verifURLQuery",
}

func init() {
	register(&Property{
		ID:          "C13",
		Patterns:    append(append([]string{pkgRts, "github.com/ory/keto/internal/x/validate"}, enginePatterns...), sqlPatterns...),
		HarnessDirs: []string{"internal/check", "internal/relationtuple", "internal/expand", "internal/persistence/sql"},
		NoReplay:    map[string]string{"HarnessC13PageSize": "arbitrary symbolic table of the database model", "HarnessC13CheckREST": "the request body is delivered through the JSON-decoder stub, which exists only under the executor"},
		Assumptions: []string{"request values are arbitrary inhabitants of the request types (every optional pointer nil or not, repeated fields of length 0..limit+1, JSON arrays may hold null elements, numbers fully symbolic, names from pools of known/unknown namespaces and opaque strings)", "JSON decoding stubbed as 'arbitrary value of the static type or an error'", "engine core summarised by an uninterpreted function (fresh symbolic result per distinct argument tuple)", "status of an error computed as herodot does (first StatusCodeCarrier in the chain, else 500)"},
		Outside:     []string{"HTTP parsing, routers, middleware, protobuf and JSON wire decoding", "a page size whose successor overflows reaches the database as a negative LIMIT: SQLite reads it as 'no limit' (modelled), MySQL and PostgreSQL reject the statement (not modelled)"},
		Runs: func(tier string) []Run {
			a := Run{Name: "check-grpc", Pkg: pkgCheck, Harness: "HarnessC13CheckGRPC", Params: map[string]int64{"batch": pick(tier, 1, 2), "depths": pick(tier, 0, 1)}, Overrides: handlerOverrides, Reach: []string{"c13.grpc.check", "c13.grpc.batch"}}
			b := Run{Name: "check-rest", Pkg: pkgCheck, Harness: "HarnessC13CheckREST", Params: map[string]int64{"batch": pick(tier, 1, 2), "depths": pick(tier, 0, 1)}, Overrides: handlerOverrides, Reach: []string{"c13.rest.get", "c13.rest.post", "c13.rest.batch"}}
			rtOv := map[string]string{
				"(*github.com/ory/keto/internal/driver/config.Config).NamespaceManager": "verifHCfgNamespaceManager",
				"(*encoding/json.Decoder).Decode":                                       "verifJSONDecode",
				"(*net/url.URL).Query":                                                  "verifURLQuery",
			}
			c := Run{Name: "relationtuple-read", Pkg: "github.com/ory/keto/internal/relationtuple", Harness: "HarnessC13Read", Params: map[string]int64{}, Overrides: rtOv, Reach: []string{"c13.read.grpc", "c13.read.rest"}}
			d := Run{Name: "relationtuple-write", Pkg: "github.com/ory/keto/internal/relationtuple", Harness: "HarnessC13Write", Params: map[string]int64{}, Overrides: rtOv, Reach: []string{"c13.write.put", "c13.write.delete", "c13.write.patch", "c13.write.transact", "c13.write.grpc-delete"}}
			exOv := map[string]string{
				"(*github.com/ory/keto/internal/driver/config.Config).NamespaceManager": "verifHCfgNamespaceManager",
				"(*github.com/ory/keto/internal/driver/config.Config).MaxReadDepth":     "verifHCfgMaxReadDepth",
				"(*net/url.URL).Query": "verifURLQuery",
			}
			e := Run{Name: "expand", Pkg: "github.com/ory/keto/internal/expand", Harness: "HarnessC13Expand", Params: map[string]int64{}, Overrides: exOv, Reach: []string{"c13.expand.grpc", "c13.expand.rest"}}
			f := sqlRun("sql-list-any-page-size", "HarnessC13PageSize", map[string]int64{"K": pick(tier, 2, 3)})
			f.Reach = []string{"c13.sql.list"}
			return []Run{a, b, c, d, e, f}
		},
	})
}

func init() {
	register(&Property{
		ID:          "C08",
		Patterns:    append([]string{pkgRts}, enginePatterns...),
		HarnessDirs: []string{"internal/check"},
		NoReplay:    map[string]string{"HarnessC08Single": "the engine core is an uninterpreted function in this harness; natively the real engine answers", "HarnessC08Batch": "the engine core is an uninterpreted function in this harness; natively the real engine answers", "HarnessC08BatchNames": "the engine core is an uninterpreted function in this harness; natively the real engine answers"},
		Assumptions: []string{"engine core summarised by an uninterpreted function: one fresh symbolic (membership, error) per distinct (mapped tuple, depth), so the statement holds for every possible engine behaviour", "JSON decoding stubbed; herodot writer replaced by a capturing writer; (*url.URL).Query and (*http.Request).Context stubbed", "names: opaque symbolic strings; namespaces from {N known, X unknown}; in the run batch-names-with-separators concrete names containing ':' '#' '@' so that different relationships have equal textual renderings"},
		Outside:     []string{"HTTP routing and middleware, JSON/protobuf wire formats", "batches larger than 2"},
		Runs: func(tier string) []Run {
			a := Run{Name: "single", Pkg: pkgCheck, Harness: "HarnessC08Single", Params: map[string]int64{"depths": 0}, Overrides: handlerOverrides, Reach: []string{"c08.single"}}
			b := Run{Name: "batch", Pkg: pkgCheck, Harness: "HarnessC08Batch", Params: map[string]int64{"depths": 0}, Overrides: handlerOverrides, Reach: []string{"c08.batch"}}
			c := Run{Name: "batch-names-with-separators", Pkg: pkgCheck, Harness: "HarnessC08BatchNames", Params: map[string]int64{"depths": 0}, Overrides: handlerOverrides, Reach: []string{"c08.batch"}}
			return []Run{a, b, c}
		},
	})
}

func init() {
	c13 := registry["C13"]
	register(&Property{
		ID:            "C17",
		OnlyMsgPrefix: "C17:",
		NoReplay:      map[string]string{"HarnessC13CheckREST": "the request body is delivered through the JSON-decoder stub, which exists only under the executor", "HarnessC17Servers": "grpc.NewServer and the generated Register*ServiceServer functions are replaced by recording stubs, which exist only under the executor"},
		Patterns:      append([]string{"github.com/ory/keto/internal/driver", "github.com/ory/keto/internal/namespace/namespacehandler", pkgSchema, pkgOpl}, c13.Patterns...),
		HarnessDirs:   []string{"internal/check", "internal/relationtuple", "internal/expand", "internal/driver"},
		Assumptions:   []string{"storage = recording stubs of relationtuple.Manager and MappingManager: any call of a writing method (WriteRelationTuples, DeleteRelationTuples, DeleteAllRelationTuples, TransactRelationTuples, MapStringsToUUIDs) or of the writing Mapper() from a read handler is the violation", "requests: arbitrary inhabitants of the request types as in C13, names known and never seen before (opaque strings)"},
		Outside:       []string{"the SQL statements below the Manager/MappingManager interfaces (a read method of the persister that writes)", "REST route registration (which router a handler is mounted on; the router types keep read and write routes apart at compile time)", "the syntax API (touches no storage interface at all)"},
		Runs: func(tier string) []Run {
			var out []Run
			for _, r := range c13.Runs(tier) {
				if r.Name == "relationtuple-write" || r.Name == "sql-list-any-page-size" {
					continue
				}
				r.Name = "read-" + r.Name
				out = append(out, r)
			}
			out = append(out, Run{Name: "registry-mappers", Pkg: "github.com/ory/keto/internal/driver", Harness: "HarnessC17RegistryMappers", Params: map[string]int64{}, Reach: []string{"c17.registry"}})
			rtsPkg := "github.com/ory/keto/proto/ory/keto/relation_tuples/v1alpha2."
			out = append(out, Run{Name: "grpc-servers-expose-their-own-services", Pkg: "github.com/ory/keto/internal/driver", Harness: "HarnessC17Servers", Params: map[string]int64{}, Reach: []string{"c17.servers.read", "c17.servers.write", "c17.servers.syntax"},
				Overrides: map[string]string{
					"(*github.com/ory/keto/internal/driver.RegistryDefault).newGrpcServer":        "verifNewGrpcServer",
					"(*github.com/ory/keto/internal/driver.RegistryDefault).HealthServer":         "verifHealthServer",
					"google.golang.org/grpc/health/grpc_health_v1.RegisterHealthServer":           "verifRegHealth",
					"google.golang.org/grpc/reflection.Register":                                  "verifRegReflection",
					"(*github.com/ory/x/prometheusx.MetricsManager).Register":                     "verifPmmRegister",
					rtsPkg + "RegisterVersionServiceServer":                                       "verifRegVersion",
					rtsPkg + "RegisterReadServiceServer":                                          "verifRegRead",
					rtsPkg + "RegisterWriteServiceServer":                                         "verifRegWrite",
					rtsPkg + "RegisterCheckServiceServer":                                         "verifRegCheck",
					rtsPkg + "RegisterExpandServiceServer":                                        "verifRegExpand",
					rtsPkg + "RegisterNamespacesServiceServer":                                    "verifRegNamespaces",
					"github.com/ory/keto/proto/ory/keto/opl/v1alpha1.RegisterSyntaxServiceServer": "verifRegSyntax",
				}})
			return out
		},
	})
}

func init() {
	register(&Property{
		ID:          "C19",
		NoReplay:    map[string]string{"HarnessC19ConfigReload": "NewNamespaceWatcher and (*Config).namespaceConfig are replaced by harness functions, which exist only under the executor"},
		Patterns:    []string{"github.com/ory/keto/internal/driver/config", pkgSchema, pkgNs, pkgAst, "github.com/ory/x/watcherx", "io"},
		HarnessDirs: []string{"internal/driver/config"},
		Assumptions: []string{"the watcher structs are constructed directly; events are delivered by calling handleChange / handleRemove (no fsnotify, no timing)", "documents per file from a pool of four: valid v1, valid v2, syntactically invalid, type-incorrect; file-specific namespace names", "legacy watcher: GetParser replaced by a parser that accepts 'ok:NAME' (symbolic runs; native replay uses real JSON)"},
		Outside:     []string{"OS file-event delivery and timing, remote (http, base64) targets", "configx itself (the provider's own change detection); Config.watcher is driven directly", "observation by a concurrent reader between two events (the map swap happens under the write lock)"},
		Runs: func(tier string) []Run {
			a := Run{Name: "opl-watcher", Pkg: "github.com/ory/keto/internal/driver/config", Harness: "HarnessC19OPL", Params: map[string]int64{"h": pick(tier, 3, 4)}, Reach: []string{"c19.opl"}}
			b := Run{Name: "legacy-watcher", Pkg: "github.com/ory/keto/internal/driver/config", Harness: "HarnessC19Legacy", Params: map[string]int64{"h": pick(tier, 3, 5)}, Overrides: map[string]string{"github.com/ory/keto/internal/driver/config.GetParser": "verifGetParser"}, Reach: []string{"c19.legacy"}}
			c := Run{Name: "config-reload-keeps-manager", Pkg: "github.com/ory/keto/internal/driver/config", Harness: "HarnessC19ConfigReload", Params: map[string]int64{}, Reach: []string{"c19.config"},
				Overrides: map[string]string{
					"github.com/ory/keto/internal/driver/config.GetParser":                 "verifGetParser",
					"github.com/ory/keto/internal/driver/config.NewNamespaceWatcher":       "verifNewNamespaceWatcher",
					"(*github.com/ory/keto/internal/driver/config.Config).namespaceConfig": "verifLegacyNamespaceConfig",
				}}
			return []Run{a, b, c}
		},
		Bounds: func(tier string) map[string]interface{} {
			return map[string]interface{}{"config reload": "legacy URI setting, one file loaded (then optionally invalid), one Config.watcher event with the namespaces setting unchanged or changed", "events": "every sequence of " + itoa(pick(tier, 3, 4)) + " (OPL) / " + itoa(pick(tier, 3, 5)) + " (legacy) events over 2 files x {4 documents, remove}", "observation": "after every event"}
		},
	})
}

func init() {
	register(&Property{
		ID:          "C14",
		Patterns:    append([]string{"github.com/ory/keto/internal/driver", "github.com/ory/keto/internal/expand"}, enginePatterns...),
		HarnessDirs: []string{"internal/check/zzverif", "internal/driver", "internal/driver/config"},
		ReplayTags:  "sqlite",
		NoReplay:    map[string]string{"HarnessC14ConfigNamespaceManager": "data races are decided by the executor's happens-before analysis", "HarnessC14RegistryInit": "data races are decided by the executor's happens-before analysis; the native race detector is not part of this family", "HarnessC14Isolation": "schedule-dependent: the native scheduler cannot be forced"},
		Assumptions: append([]string{"happens-before = the executor's vector clocks over its models of go, channels, select, mutexes, Once, WaitGroup, atomics and context; a race = two conflicting accesses to the same interpreted memory cell by different goroutines that are unordered on an explored path", "configurations without && and ! (their answers are schedule-dependent on their own, see F7)"}, engineAssumptions...),
		Outside:     append([]string{"reports of the Go race detector on the real runtime", "schedules beyond delay bound 1", "more than two concurrent requests"}, engineOutside...),
		Runs: func(tier string) []Run {
			a := engineRun("isolation", "HarnessC14Isolation", map[string]int64{"family": 0, "K": 1, "objs": 2, "shapes": pick(tier, 1, 0), "modes": pick(tier, 1, 0)})
			a.StopAfter = 200
			a.Delay = 1
			a.Race = true
			a.Reach = []string{"c14.concurrent"}
			b := Run{Name: "registry-lazy-init", Pkg: "github.com/ory/keto/internal/driver", Harness: "HarnessC14RegistryInit", Params: map[string]int64{}, Delay: 1, Race: true, Reach: []string{"c14.registry"}}
			cfgRun := Run{Name: "config-namespace-manager", Pkg: "github.com/ory/keto/internal/driver/config", Harness: "HarnessC14ConfigNamespaceManager", Params: map[string]int64{}, Delay: 2, Race: true,
				Overrides: map[string]string{"(*github.com/ory/keto/internal/driver/config.Config).namespaceConfig": "verifNamespaceConfig"}, Reach: []string{"c14.config"}}
			c := engineRun("batch-entries-vs-alone", "HarnessC14Batch", map[string]int64{"family": 0, "K": 3, "objs": 2, "shapes": pick(tier, 1, 0), "modes": pick(tier, 1, 0)})
			c.Reach = []string{"c14.batch"}
			return []Run{a, b, c, cfgRun}
		},
		Bounds: func(tier string) map[string]interface{} {
			return map[string]interface{}{"requests": 2, "rows": 1, "config": "two concurrent NamespaceManager() calls on a fresh Config, and two calls concurrent with a namespace reload, delay bound 2", "batch": "2 entries (the same relationship twice, or two different ones) over 3 symbolic rows, 2 objects, delay bound 0", "delay bound": 1, "configurations": []string{"schemaless, default mode", "plain / schemaless / subject-set typed, both modes"}[pick(tier, 0, 1)]}
		},
	})
}

const pkgSQL = "github.com/ory/keto/internal/persistence/sql"

var dbOverrides = map[string]string{
	"(*github.com/gobuffalo/pop/v6.Connection).WithContext": "dbWithContext",
	"(*github.com/gobuffalo/pop/v6.Connection).Where":       "dbConnWhere",
	"(*github.com/gobuffalo/pop/v6.Connection).RawQuery":    "dbConnRawQuery",
	"(*github.com/gobuffalo/pop/v6.Query).Where":            "dbQueryWhere",
	"(*github.com/gobuffalo/pop/v6.Query).Order":            "dbQueryOrder",
	"(*github.com/gobuffalo/pop/v6.Query).Limit":            "dbQueryLimit",
	"(*github.com/gobuffalo/pop/v6.Query).All":              "dbQueryAll",
	"(*github.com/gobuffalo/pop/v6.Query).Exists":           "dbQueryExists",
	"(*github.com/gobuffalo/pop/v6.Query).Delete":           "dbQueryDelete",
	"(*github.com/gobuffalo/pop/v6.Query).Exec":             "dbQueryExec",
	"github.com/ory/x/popx.Transaction":                     "dbTransaction",
	"github.com/ory/x/popx.GetConnection":                   "dbGetConnection",
	"github.com/ory/x/sqlcon.HandleError":                   "dbHandleError",
}

var sqlPatterns = []string{pkgSQL, "github.com/ory/keto/internal/relationtuple", "github.com/ory/keto/internal/persistence", "github.com/ory/keto/internal/x", "github.com/ory/keto/ketoctx", pkgKetoapi, pkgNs, pkgAst, "github.com/ory/keto/internal/driver/config", "database/sql"}

func sqlRun(name, harness string, params map[string]int64) Run {
	return Run{Name: name, Pkg: pkgSQL, Harness: harness, Params: params, Overrides: dbOverrides}
}

var sqlAssumptions = []string{
	"the database is a model: K row slots with symbolic content (present flag, network id, namespace, object, relation, subject id or subject set; exactly one subject kind non-NULL); slot index = shard_id order; an INSERT lands in any free slot (fork)",
	"the pop boundary (Connection.WithContext/Where/RawQuery, Query.Where/Order/Limit/All/Exists/Delete/Exec, popx.Transaction/GetConnection, sqlcon.HandleError) is overridden; the SQL text and the arguments produced by the real keto code are parsed and evaluated by a small SQL evaluator (AND/OR with standard precedence, parentheses, =, >, IS NULL, IN, EXISTS sub-select, aliases)",
	"transactions: snapshot at begin, restore when the callback returns an error; a statement that does not go through the open transaction's connection is counted",
	"the database engines' own behaviour (isolation level, ordering, collation) is an assumption encoded in the model",
}

func init() {
	register(&Property{
		ID:          "C04",
		Patterns:    sqlPatterns,
		HarnessDirs: []string{"internal/persistence/sql"},
		NoReplay:    map[string]string{"HarnessC04": "the pre-state is an arbitrary symbolic table of the database model; replay against SQLite is not built"},
		Assumptions: sqlAssumptions,
		Outside:     []string{"histories are covered by one inductive step from an arbitrary table, not by enumerating sequences", "the REST/gRPC write handlers on top (mapping + transaction wrapper: C13/C16)", "more rows than K, names outside the pools"},
		Runs: func(tier string) []Run {
			r := sqlRun("one-step-from-arbitrary-table", "HarnessC04", map[string]int64{"K": 2, "small": pick(tier, 1, 0), "emptyRel": 1})
			r.Reach = []string{"c04.written", "c04.listed"}
			return []Run{r}
		},
		Bounds: func(tier string) map[string]interface{} {
			return map[string]interface{}{"rows": 2, "operation": "create 1..2 | delete 1..2 | delete-by-query (16 shapes) | transact 1+1 (quick: the reduced operation set)", "query": "all 2^4 nil/non-nil shapes", "networks": 2, "names": "2 namespaces, 3 objects, relations r, s; subject sets also with the empty relation (in requests and, symbolically, in rows)"}
		},
	})
}

func init() {
	register(&Property{
		ID:          "C07",
		Patterns:    sqlPatterns,
		HarnessDirs: []string{"internal/persistence/sql"},
		NoReplay:    map[string]string{"HarnessC07": "arbitrary symbolic table of the database model", "HarnessC07Token": "database model", "HarnessC07TraverseLarge": "database model"},
		Assumptions: sqlAssumptions,
		Outside:     []string{"page sizes above K+1 other than the default", "negative page sizes (C13)", "the internal consumers' loops (expand, traverse: covered with page size 1/2 in C09)", "the 100/101 boundary of the default page size"},
		Runs: func(tier string) []Run {
			a := sqlRun("iterate-with-interleaved-write", "HarnessC07", map[string]int64{"K": pick(tier, 2, 3)})
			a.Reach = []string{"c07.iterated"}
			b := sqlRun("malformed-token", "HarnessC07Token", map[string]int64{})
			b.Reach = []string{"c07.token"}
			ov := map[string]string{}
			for k, v := range dbOverrides {
				ov[k] = v
			}
			ov["(*github.com/ory/keto/internal/driver/config.Config).StrictMode"] = "dbCfgStrictMode"
			ov["(*github.com/ory/keto/internal/driver/config.Config).NamespaceManager"] = "dbCfgNamespaceManager"
			ov["(*github.com/ory/keto/internal/driver/config.Config).MaxReadWidth"] = "dbCfgMaxReadWidth"
			ov["(*github.com/gobuffalo/pop/v6.Query).All"] = "dbQueryAllSummary"
			c := Run{Name: "traverser-pages-of-1000", Pkg: pkgSQL, Harness: "HarnessC07TraverseLarge", Params: map[string]int64{"large": pick(tier, 0, 1)}, Overrides: ov, MaxSteps: 20000000000, Reach: []string{"c07.traverse-large"}}
			return []Run{a, b, c}
		},
		Bounds: func(tier string) map[string]interface{} {
			return map[string]interface{}{"rows": pick(tier, 2, 3), "page size": "symbolic 0..K+1 (0 = default 100)", "query": "all 2^4 shapes, symbolic names", "traverser": "the subject-set expansion's own page loop (1000 rows) on concrete nodes of 1000, 1001 (thorough: 999, 1000, 1001, 2000, 2001) subject sets with the member beyond the last page or absent", "interleaved write": "none | insert of an arbitrary relationship (any free shard position) | deletion of one row, after page 1 or 2"}
		},
	})
	register(&Property{
		ID:          "C05",
		Patterns:    sqlPatterns,
		HarnessDirs: []string{"internal/persistence/sql"},
		NoReplay:    map[string]string{"HarnessC05": "fault injection at the pop boundary of the database model", "HarnessC05Chunks": "fault injection at the pop boundary of the database model"},
		Assumptions: sqlAssumptions,
		Outside:     []string{"isolation from concurrent readers is reduced to 'every statement goes through the open transaction' (the database provides transactional isolation)", "crash recovery of the database itself; CockroachDB retry loop", "the handler-level wrapper (mapping inside the transaction)"},
		Runs: func(tier string) []Run {
			a := sqlRun("fault-or-malformed-at-any-position", "HarnessC05", map[string]int64{"K": pick(tier, 2, 3)})
			a.Reach = []string{"c05.done"}
			b := sqlRun("chunk-spanning", "HarnessC05Chunks", map[string]int64{})
			b.Reach = []string{"c05.chunks.insert", "c05.chunks.delete"}
			b.MaxSteps = 400_000_000
			return []Run{a, b}
		},
		Bounds: func(tier string) map[string]interface{} {
			return map[string]interface{}{"rows": pick(tier, 2, 3), "request": "0..2 inserts and 0..2 deletes with symbolic names, optionally one relationship without subject at any position", "fault": "none or the 1st..3rd terminal database operation fails", "chunk spanning": "3001 inserts (2 statements) and 101 deletes (2 statements) with the 1st or 2nd statement failing"}
		},
	})
}

func init() {
	register(&Property{
		ID:          "C06",
		Patterns:    sqlPatterns,
		HarnessDirs: []string{"internal/persistence/sql"},
		NoReplay:    map[string]string{"HarnessC04": "database model", "HarnessC06Traverse": "database model"},
		Assumptions: append([]string{"UUIDv5(network id, string) of the read-only mapper is not part of this check (C16 covers the mapper with an injective table)"}, sqlAssumptions...),
		Outside:     []string{"histories are covered by one inductive step from an arbitrary two-network table", "check/expand isolation follows because the engines only see what Manager and Traverser return", "the uuid mapping table"},
		Runs: func(tier string) []Run {
			ov := map[string]string{}
			for k, v := range dbOverrides {
				ov[k] = v
			}
			ov["(*github.com/ory/keto/internal/driver/config.Config).StrictMode"] = "dbCfgStrictMode"
			ov["(*github.com/ory/keto/internal/driver/config.Config).NamespaceManager"] = "dbCfgNamespaceManager"
			a := sqlRun("write-and-list", "HarnessC04", map[string]int64{"K": 2, "small": 0, "emptyRel": pick(tier, 0, 1)})
			a.Reach = []string{"c04.written", "c04.listed"}
			b := Run{Name: "traversals", Pkg: pkgSQL, Harness: "HarnessC06Traverse", Params: map[string]int64{"K": pick(tier, 2, 3)}, Overrides: ov, Reach: []string{"c06.expansion", "c06.rewrite"}}
			// the caller's network comes from the request context (contextualizer), the persister was created for the other network
			c := sqlRun("write-and-list-network-from-context", "HarnessC04", map[string]int64{"K": pick(tier, 1, 2), "small": pick(tier, 1, 0), "ctxNet": 1})
			c.Reach = []string{"c04.written", "c04.listed"}
			d := Run{Name: "traversals-network-from-context", Pkg: pkgSQL, Harness: "HarnessC06Traverse", Params: map[string]int64{"K": 2, "ctxNet": 1}, Overrides: ov, Reach: []string{"c06.expansion", "c06.rewrite"}}
			return []Run{a, b, c, d}
		},
		OnlyMsgPrefix: "",
		Bounds: func(tier string) map[string]interface{} {
			return map[string]interface{}{"rows": "2 (traversals: " + itoa(pick(tier, 2, 3)) + ")", "networks": 2, "operations": "create / delete / delete-by-query / transact under network A; list, exists, subject-set expansion and rewrite traversal under network A; the same with the network taken from the request context by a contextualizer while the persister was created for network B"}
		},
	})
}

func itoa(n int64) string {
	s := ""
	if n == 0 {
		return "0"
	}
	neg := n < 0
	if neg {
		n = -n
	}
	for n > 0 {
		s = string(rune('0'+n%10)) + s
		n /= 10
	}
	if neg {
		s = "-" + s
	}
	return s
}
