package main

import "time"

const (
	pkgKetoapi = "github.com/ory/keto/ketoapi"
	pkgSchema  = "github.com/ory/keto/internal/schema"
	pkgRts     = "github.com/ory/keto/proto/ory/keto/relation_tuples/v1alpha2"
	pkgOpl     = "github.com/ory/keto/proto/ory/keto/opl/v1alpha1"
	pkgAst     = "github.com/ory/keto/internal/namespace/ast"
	pkgNs      = "github.com/ory/keto/internal/namespace"
)

func pick(tier string, q, t int64) int64 {
	if tier == "thorough" {
		return t
	}
	return q
}

var lexerOverride = map[string]string{
	"(*github.com/ory/keto/internal/schema.lexer).nextNonCommentItem": "verifNextToken",
}

func init() {
	register(&Property{
		ID:          "C18",
		Patterns:    []string{pkgRts},
		HarnessDirs: []string{"ketoapi"},
		Runs: func(tier string) []Run {
			c := pick(tier, 2, 3)
			n := pick(tier, 8, 10)
			return []Run{
				{Name: "string-roundtrip-subject-id", Pkg: pkgKetoapi, Harness: "HarnessC18StringRoundTripID", Params: map[string]int64{"cap": c + 1}, Reach: []string{"c18.id.decoded"}},
				{Name: "string-roundtrip-subject-set", Pkg: pkgKetoapi, Harness: "HarnessC18StringRoundTripSet", Params: map[string]int64{"cap": c}, Reach: []string{"c18.set.decoded"}},
				{Name: "string-decode-stable", Pkg: pkgKetoapi, Harness: "HarnessC18StringStable", Params: map[string]int64{"n": n}, Reach: []string{"c18.stable.accepted", "c18.stable.rejected"}},
				{Name: "proto-tuple", Pkg: pkgKetoapi, Harness: "HarnessC18ProtoTuple", Reach: []string{"c18.proto.tuple"}},
				{Name: "proto-query", Pkg: pkgKetoapi, Harness: "HarnessC18ProtoQuery", Reach: []string{"c18.proto.query"}},
				{Name: "url-tuple", Pkg: pkgKetoapi, Harness: "HarnessC18URLTuple", Reach: []string{"c18.url.tuple"}},
				{Name: "url-query", Pkg: pkgKetoapi, Harness: "HarnessC18URLQuery", Reach: []string{"c18.url.query"}},
				{Name: "url-subject-set", Pkg: pkgKetoapi, Harness: "HarnessC18URLSubjectSet", Reach: []string{"c18.url.set"}},
			}
		},
		Bounds: func(tier string) map[string]interface{} {
			return map[string]interface{}{
				"string form, round trip": "every field of length 0.." + itoa(pick(tier, 2, 3)) + " (subject-id tuples: 0.." + itoa(pick(tier, 3, 4)) + "), all byte values, every combination of field lengths (lengths by forking, bytes symbolic)",
				"string form, decode":     "every byte string of length 0.." + itoa(pick(tier, 8, 10)),
				"proto and URL legs":      "opaque symbolic strings (any length and content), every nil/non-nil shape of the optional fields",
			}
		},
		Outside: []string{"JSON leg (encoding/json is reflection driven)", "string fields longer than the bound", "net/url percent-encoding of the values on the wire (url.Values is used as a map)"},
		Assumptions: []string{
			"documented domain of the string form: namespace without ':', object without '#', relation without '@', subject id without ':' and not starting/ending with a parenthesis; subject set namespace without ':' '#' and no leading parenthesis, object without '#', no trailing parenthesis",
			"pkg/errors.WithStack modelled as identity (no stack capture)",
		},
	})

	register(&Property{
		ID:          "C10",
		Patterns:    []string{pkgAst, pkgNs},
		HarnessDirs: []string{"internal/schema"},
		Runs: func(tier string) []Run {
			L := pick(tier, 6, 8)
			return []Run{
				{Name: "expression-tokens", Pkg: pkgSchema, Harness: "HarnessC10Tokens", Params: map[string]int64{"L": L}, Overrides: lexerOverride, Reach: []string{"c10.reference-accepts"}},
				{Name: "nesting-limit", Pkg: pkgSchema, Harness: "HarnessC10Nesting", Overrides: lexerOverride, Reach: []string{"c10.reference-accepts"}},
				{Name: "spellings", Pkg: pkgSchema, Harness: "HarnessC10Spellings", Params: map[string]int64{"full": pick(tier, 0, 1)}, Reach: []string{"c10.spelling.parsed"}},
			}
		},
		Bounds: func(tier string) map[string]interface{} {
			return map[string]interface{}{
				"expression tokens": "every sequence of at most " + itoa(pick(tier, 6, 8)) + " tokens over {A,B,C,&&,||,!,(,)} (atoms = this.related.x.includes(ctx.subject)); token choice by forking on viable prefixes, the 8 valuations of the atoms by one solver query per expression",
				"nesting":           "chains of 1..11 nested '(' and '!'",
				"spellings":         "variant space of the syntactic sites enumerated by forking, concrete text through the real lexer",
			}
		},
		Outside:     []string{"expressions longer than the token bound", "traverse atoms inside the symbolic part (covered concretely by the spellings run)"},
		Assumptions: []string{"reference semantics: TypeScript boolean operators with ! > && > || and parentheses", "keto's rewrite AST evaluated as the check engine combines results (or = any, and = all, invert = not)"},
	})

	register(&Property{
		ID:          "C12",
		Patterns:    []string{pkgAst, pkgNs, pkgOpl},
		HarnessDirs: []string{"internal/schema"},
		Runs: func(tier string) []Run {
			return []Run{
				{Name: "lexer-bytes", Pkg: pkgSchema, Harness: "HarnessC12Lexer", Params: map[string]int64{"n": pick(tier, 3, 5), "alphabet": 0}, Reach: []string{"c12.lexer.eof", "c12.lexer.error"}},
				{Name: "parse-bytes", Pkg: pkgSchema, Harness: "HarnessC12ParseBytes", Params: map[string]int64{"n": pick(tier, 3, 4), "alphabet": 0}, Reach: []string{"c12.parse.accepted", "c12.parse.rejected"}},
				{Name: "error-rendering", Pkg: pkgSchema, Harness: "HarnessC12ErrorRendering", Params: map[string]int64{"n": pick(tier, 3, 5)}, Reach: []string{"c12.render"}},
				{Name: "parser-tokens", Pkg: pkgSchema, Harness: "HarnessC12ParserTokens", Params: map[string]int64{"L": pick(tier, 4, 6)}, Overrides: map[string]string{"(*github.com/ory/keto/internal/schema.lexer).nextNonCommentItem": "verifNextToken12"}, Reach: []string{"c12.tokens.done"}, Budget: time.Duration(pick(tier, 240, 1800)) * time.Second},
			}
		},
		Bounds: func(tier string) map[string]interface{} {
			return map[string]interface{}{
				"lexer":           "every byte string of length 0.." + itoa(pick(tier, 3, 5)) + " (all 256 byte values, symbolic)",
				"parse":           "every byte string of length 0.." + itoa(pick(tier, 3, 4)) + " through Parse and error rendering",
				"error rendering": "inputs of length 0.." + itoa(pick(tier, 3, 5)) + " over {\\n,' ',a,\\t,0xC3,0xA9,0xFF}, every 0 <= Start <= End <= len",
				"parser tokens":   "every token sequence of length <= " + itoa(pick(tier, 4, 6)) + " over the token alphabet after 'class N implements Namespace {' (viable prefixes, by forking)",
			}
		},
		Outside:     []string{"longer inputs", "asymptotic linearity (only step counters within the bound are asserted)", "the syntax-check HTTP/gRPC handlers' transport layers"},
		Assumptions: []string{"fmt.Sprintf modelled (messages with symbolic content become opaque strings)", "strings.Builder modelled natively"},
	})
}

func itoa(n int64) string {
	s := ""
	if n == 0 {
		return "0"
	}
	neg := n < 0
	if neg {
		n = -n
	}
	for n > 0 {
		s = string(rune('0'+n%10)) + s
		n /= 10
	}
	if neg {
		s = "-" + s
	}
	return s
}
