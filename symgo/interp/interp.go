// Copyright 2013 The Go Authors. All rights reserved.
// Use of this source code is governed by a BSD-style
// license that can be found in the LICENSE file.

// Package interp is a symbolic executor for the go/ssa form of Go programs.
// It started as a fork of golang.org/x/tools/go/ssa/interp (v0.29.0): the
// boxed value representation and most concrete instruction semantics are
// taken from there. Added: symbolic scalars and strings backed by SMT terms,
// solver-decided branches, decision-vector path exploration, a deterministic
// goroutine scheduler with modelled channels / select / sync, stubs and
// overrides, and harness intrinsics.
package interp

import (
	"fmt"
	"go/token"
	"go/types"
	"os"
	"slices"
	"strings"

	"golang.org/x/tools/go/ssa"
)

type continuation int

const (
	kNext continuation = iota
	kReturn
	kJump
)

type runtimeError string

func (e runtimeError) Error() string { return string(e) }

// State of one path execution.
type interpreter struct {
	w        *World
	prog     *ssa.Program
	globals  map[*ssa.Global]*value // per-path globals (keto + harness packages)
	cfg      *Config
	ps       *pathState
	sched    *scheduler
	steps    int64
	mutexes  map[*value]*mutexState
	onces    map[*value]*onceState
	wgs      map[*value]*wgState
	funcs    map[string]bool
	stubs    map[string]int64
	overrides map[*ssa.Function]*ssa.Function
	hstate   map[string]value // harness/global model state (e.g. ghost values)
	depth    int
	shadow   map[*value]*shadowCell
	initing  bool
	skipExt  *ssa.Function
}

type deferred struct {
	fn    value
	args  []value
	instr *ssa.Defer
	tail  *deferred
}

type frame struct {
	i                *interpreter
	caller           *frame
	fn               *ssa.Function
	block, prevBlock *ssa.BasicBlock
	info             *funcInfo
	regs             []value // dynamic values of SSA variables, indexed by info.index
	locals           []value
	defers           *deferred
	result           value
	panicking        bool
	panic            interface{}
	phitemps         []value // temporaries for parallel phi assignment
	pos              token.Pos
}

func (fr *frame) get(key ssa.Value) value {
	switch key := key.(type) {
	case nil:
		return nil
	case *ssa.Function, *ssa.Builtin:
		return key
	case *ssa.Const:
		return constValue(key)
	case *ssa.Global:
		return fr.i.globalAddr(key)
	}
	if idx, ok := fr.info.index[key]; ok {
		if r := fr.regs[idx]; r != nil {
			return r
		}
	}
	panic(fmt.Sprintf("get: no value for %T: %v", key, key.Name()))
}

func (fr *frame) set(key ssa.Value, v value) {
	if v == nil {
		v = nilResult{}
	}
	fr.regs[fr.info.index[key]] = v
}

// nilResult marks a register written with "no value" (call without result).
type nilResult struct{}

type funcInfo struct {
	index map[ssa.Value]int
	n     int
}

func (w *World) funcInfoFor(fn *ssa.Function) *funcInfo {
	if v, ok := w.fnInfo.Load(fn); ok {
		return v.(*funcInfo)
	}
	fi := &funcInfo{index: map[ssa.Value]int{}}
	add := func(v ssa.Value) {
		if _, ok := fi.index[v]; !ok {
			fi.index[v] = fi.n
			fi.n++
		}
	}
	for _, p := range fn.Params {
		add(p)
	}
	for _, fv := range fn.FreeVars {
		add(fv)
	}
	for _, l := range fn.Locals {
		add(l)
	}
	for _, b := range fn.Blocks {
		for _, in := range b.Instrs {
			if v, ok := in.(ssa.Value); ok {
				add(v)
			}
		}
	}
	w.fnInfo.Store(fn, fi)
	return fi
}

func (i *interpreter) globalAddr(g *ssa.Global) *value {
	if r, ok := i.globals[g]; ok {
		return r
	}
	if r, ok := i.w.sharedGlobals[g]; ok {
		if !i.w.pkgInited[g.Pkg] && g.Name() != "init$guard" {
			// package without interpreted initialiser: only known sentinels may be read
			if i.w.sentinel(i, g, r) {
				return r
			}
			if i.initing {
				// package initialisers may capture foreign globals (zero here);
				// using such a value later on a path shows up as a nil
				// dereference that native replay does not confirm.
				i.stubs["zero value for foreign global read during init: "+g.String()]++
				return r
			}
			panic(abortPath{"unsupported", "read of global of uninitialised package: " + g.String()})
		}
		return r
	}
	panic(fmt.Sprintf("no storage for global %s", g))
}

func (fr *frame) where() string {
	return fr.i.posString(fr.pos, fr.fn)
}

func (i *interpreter) posString(pos token.Pos, fn *ssa.Function) string {
	if pos == token.NoPos {
		if fn != nil {
			return fn.String()
		}
		return "?"
	}
	p := i.prog.Fset.Position(pos)
	f := p.Filename
	if k := strings.Index(f, "/repo/"); k >= 0 {
		f = f[k+6:]
	} else if k := strings.Index(f, "/pkg/mod/"); k >= 0 {
		f = f[k+9:]
	}
	return fmt.Sprintf("%s:%d", f, p.Line)
}

// runDefer runs a deferred call d.
func (fr *frame) runDefer(d *deferred) {
	var ok bool
	defer func() {
		if !ok {
			r := recover()
			if ap, isAbort := r.(abortPath); isAbort {
				panic(ap)
			}
			// Deferred call created a new state of panic.
			fr.panicking = true
			fr.panic = r
		}
	}()
	call(fr.i, fr, d.instr.Pos(), d.fn, d.args)
	ok = true
}

func (fr *frame) runDefers() {
	for d := fr.defers; d != nil; d = d.tail {
		fr.runDefer(d)
	}
	fr.defers = nil
	if fr.panicking {
		panic(fr.panic) // new panic, or still panicking
	}
}

func lookupMethod(i *interpreter, typ types.Type, meth *types.Func) *ssa.Function {
	return i.prog.LookupMethod(typ, meth.Pkg(), meth.Name())
}

func (i *interpreter) unsupported(format string, args ...interface{}) {
	panic(abortPath{"unsupported", fmt.Sprintf(format, args...)})
}

// visitInstr interprets a single ssa.Instruction within the activation
// record frame.
func visitInstr(fr *frame, instr ssa.Instruction) continuation {
	i := fr.i
	i.steps++
	if i.steps > i.cfg.MaxSteps {
		panic(abortPath{"budget", fmt.Sprintf("step budget %d exceeded in %s", i.cfg.MaxSteps, fr.fn)})
	}
	if p := instr.Pos(); p != token.NoPos {
		fr.pos = p
	}
	switch instr := instr.(type) {
	case *ssa.DebugRef:
		// no-op

	case *ssa.UnOp:
		if instr.Op == token.ARROW {
			ch, _ := fr.get(instr.X).(*channel)
			v, ok := i.sched.recv(ch, fr.where())
			if v == nil {
				v = zero(instr.X.Type().Underlying().(*types.Chan).Elem())
			}
			if instr.CommaOk {
				fr.set(instr, tuple{v, ok})
			} else {
				fr.set(instr, v)
			}
			break
		}
		if instr.Op == token.MUL {
			if sr, ok := fr.get(instr.X).(*symRef); ok {
				fr.set(instr, i.selectElem(sr.idx, sr.elems))
				break
			}
			addr := fr.get(instr.X).(*value)
			if addr == nil {
				panic(targetPanic{v: i.runtimeErr("invalid memory address or nil pointer dereference")})
			}
			i.access(fr, addr, false)
			fr.set(instr, load(deref(instr.X.Type()), addr))
			break
		}
		fr.set(instr, i.unop(instr, fr.get(instr.X)))

	case *ssa.BinOp:
		fr.set(instr, i.binop(fr, instr.Op, instr.X.Type(), fr.get(instr.X), fr.get(instr.Y)))

	case *ssa.Call:
		fn, args := prepareCall(fr, &instr.Call)
		fr.set(instr, call(fr.i, fr, instr.Pos(), fn, args))

	case *ssa.ChangeInterface:
		fr.set(instr, fr.get(instr.X))

	case *ssa.ChangeType:
		fr.set(instr, fr.get(instr.X)) // (can't fail)

	case *ssa.Convert:
		fr.set(instr, i.conv(fr, instr.Type(), instr.X.Type(), fr.get(instr.X)))

	case *ssa.SliceToArrayPointer:
		fr.set(instr, sliceToArrayPointer(instr.Type(), instr.X.Type(), fr.get(instr.X)))

	case *ssa.MakeInterface:
		fr.set(instr, iface{t: instr.X.Type(), v: fr.get(instr.X)})

	case *ssa.Extract:
		fr.set(instr, fr.get(instr.Tuple).(tuple)[instr.Index])

	case *ssa.Slice:
		fr.set(instr, i.slice(fr, fr.get(instr.X), fr.get(instr.Low), fr.get(instr.High), fr.get(instr.Max)))

	case *ssa.Return:
		switch len(instr.Results) {
		case 0:
		case 1:
			fr.result = fr.get(instr.Results[0])
		default:
			var res []value
			for _, r := range instr.Results {
				res = append(res, fr.get(r))
			}
			fr.result = tuple(res)
		}
		fr.block = nil
		return kReturn

	case *ssa.RunDefers:
		fr.runDefers()

	case *ssa.Panic:
		panic(targetPanic{fr.get(instr.X)})

	case *ssa.Send:
		ch, _ := fr.get(instr.Chan).(*channel)
		i.sched.send(ch, fr.get(instr.X), fr.where())

	case *ssa.Store:
		if sr, ok := fr.get(instr.Addr).(*symRef); ok {
			i.storeSymRef(sr, fr.get(instr.Val))
			break
		}
		addr := fr.get(instr.Addr).(*value)
		if addr == nil {
			panic(targetPanic{v: i.runtimeErr("invalid memory address or nil pointer dereference")})
		}
		i.access(fr, addr, true)
		store(deref(instr.Addr.Type()), addr, fr.get(instr.Val))

	case *ssa.If:
		succ := 1
		switch c := fr.get(instr.Cond).(type) {
		case bool:
			if c {
				succ = 0
			}
		case *Sym:
			if i.ps.branch(c.t) {
				succ = 0
			}
		default:
			panic(fmt.Sprintf("If: unexpected condition %T", c))
		}
		fr.prevBlock, fr.block = fr.block, fr.block.Succs[succ]
		return kJump

	case *ssa.Jump:
		fr.prevBlock, fr.block = fr.block, fr.block.Succs[0]
		return kJump

	case *ssa.Defer:
		fn, args := prepareCall(fr, &instr.Call)
		defers := &fr.defers
		if into := fr.get(instr.DeferStack); into != nil {
			defers = into.(**deferred)
		}
		*defers = &deferred{
			fn:    fn,
			args:  args,
			instr: instr,
			tail:  *defers,
		}

	case *ssa.Go:
		fn, args := prepareCall(fr, &instr.Call)
		i.sched.spawn(fn, args, instr.Pos())

	case *ssa.MakeChan:
		fr.set(instr, i.sched.makeChan(int(i.concreteInt(fr.get(instr.Size), "channel capacity"))))

	case *ssa.Alloc:
		var addr *value
		if instr.Heap {
			// new
			addr = new(value)
			fr.set(instr, addr)
		} else {
			// local
			addr = fr.regs[fr.info.index[instr]].(*value)
		}
		*addr = zero(deref(instr.Type()))

	case *ssa.MakeSlice:
		capV := fr.get(instr.Cap)
		if sc, ok := capV.(*Sym); ok {
			// symbolic capacity: out of range (negative, or more than the address
			// space can hold) panics like the runtime's makeslice; otherwise the
			// capacity is not observable apart from cap(), so the slice gets the
			// capacity of its (concretised) length
			pl := i.ps.pool
			w := pl.Resize(sc.t, kindSigned(sc.k), 64)
			inRange := pl.And(pl.CmpBV("bvsle", pl.BV(64, 0), w), pl.CmpBV("bvsle", w, pl.BV(64, 1<<44)))
			if !i.ps.branch(inRange) {
				panic(targetPanic{v: i.runtimeErr("makeslice: cap out of range")})
			}
			i.stubs["make([]T, len, <symbolic cap>): capacity taken as len"]++
			capV = fr.get(instr.Len)
			if sl, ok := capV.(*Sym); ok {
				// len <= cap must hold as well
				wl := pl.Resize(sl.t, kindSigned(sl.k), 64)
				if !i.ps.branch(pl.And(pl.CmpBV("bvsle", pl.BV(64, 0), wl), pl.CmpBV("bvsle", wl, w))) {
					panic(targetPanic{v: i.runtimeErr("makeslice: len out of range")})
				}
			} else if asInt64(capV) < 0 {
				panic(targetPanic{v: i.runtimeErr("makeslice: len out of range")})
			}
		}
		c := i.concreteInt(capV, "make([]T) capacity")
		l := i.concreteInt(fr.get(instr.Len), "make([]T) length")
		if l < 0 || c < l || c > 1<<26 {
			panic(targetPanic{v: i.runtimeErr("makeslice: len out of range")})
		}
		slice := make([]value, c)
		tElt := instr.Type().Underlying().(*types.Slice).Elem()
		for i := range slice {
			slice[i] = zero(tElt)
		}
		fr.set(instr, slice[:l])

	case *ssa.MakeMap:
		fr.set(instr, makeMap(instr.Type().Underlying().(*types.Map).Key(), 0))

	case *ssa.Range:
		fr.set(instr, i.rangeIter(fr, fr.get(instr.X), instr.X.Type()))

	case *ssa.Next:
		fr.set(instr, fr.get(instr.Iter).(iter).next())

	case *ssa.FieldAddr:
		p := fr.get(instr.X).(*value)
		if p == nil {
			panic(targetPanic{v: i.runtimeErr("invalid memory address or nil pointer dereference")})
		}
		fr.set(instr, &(*p).(structure)[instr.Field])

	case *ssa.Field:
		fr.set(instr, fr.get(instr.X).(structure)[instr.Field])

	case *ssa.IndexAddr:
		x := fr.get(instr.X)
		idx := fr.get(instr.Index)
		switch x := x.(type) {
		case []value:
			if s, ok := idx.(*Sym); ok && scalarElems(x) {
				i.symBoundsCheck(s, len(x))
				fr.set(instr, &symRef{elems: x, idx: s})
				break
			}
			k := i.indexFor(fr, idx, len(x))
			fr.set(instr, &x[k])
		case *value: // *array
			if x == nil {
				panic(targetPanic{v: i.runtimeErr("invalid memory address or nil pointer dereference")})
			}
			a := (*x).(array)
			if s, ok := idx.(*Sym); ok && scalarElems(a) {
				i.symBoundsCheck(s, len(a))
				fr.set(instr, &symRef{elems: a, idx: s})
				break
			}
			k := i.indexFor(fr, idx, len(a))
			fr.set(instr, &a[k])
		default:
			panic(fmt.Sprintf("unexpected x type in IndexAddr: %T", x))
		}

	case *ssa.Index:
		x := fr.get(instr.X)
		idx := fr.get(instr.Index)
		fr.set(instr, i.indexValue(fr, x, idx, instr.Type()))

	case *ssa.Lookup:
		fr.set(instr, i.lookup(fr, instr, fr.get(instr.X), fr.get(instr.Index)))

	case *ssa.MapUpdate:
		m := fr.get(instr.Map)
		key := i.mapKey(fr, fr.get(instr.Key))
		v := fr.get(instr.Value)
		switch m := m.(type) {
		case *omap:
			if m == nil {
				panic(targetPanic{v: i.runtimeErr("assignment to entry in nil map")})
			}
			i.accessObj(fr, &m.cell, true)
			m.insert(key, v)
		default:
			panic(fmt.Sprintf("illegal map type: %T", m))
		}

	case *ssa.TypeAssert:
		fr.set(instr, typeAssert(fr.i, instr, fr.get(instr.X).(iface)))

	case *ssa.MakeClosure:
		var bindings []value
		for _, binding := range instr.Bindings {
			bindings = append(bindings, fr.get(binding))
		}
		fr.set(instr, &closure{instr.Fn.(*ssa.Function), bindings})

	case *ssa.Phi:
		panic("unreachable: phis are processed at block entry")

	case *ssa.Select:
		var cases []selCase
		for _, state := range instr.States {
			ch, _ := fr.get(state.Chan).(*channel)
			c := selCase{ch: ch, isSend: state.Dir == types.SendOnly}
			if state.Send != nil {
				c.val = fr.get(state.Send)
			}
			cases = append(cases, c)
		}
		chosen, recv, recvOk := i.sched.selectOp(cases, instr.Blocking, fr.where())
		r := tuple{chosen, recvOk}
		for k, st := range instr.States {
			if st.Dir == types.RecvOnly {
				var v value
				if k == chosen && recvOk {
					v = recv
				} else {
					v = zero(st.Chan.Type().Underlying().(*types.Chan).Elem())
				}
				r = append(r, v)
			}
		}
		fr.set(instr, r)

	default:
		panic(fmt.Sprintf("unexpected instruction: %T", instr))
	}
	return kNext
}

func deref(t types.Type) types.Type {
	if p, ok := t.Underlying().(*types.Pointer); ok {
		return p.Elem()
	}
	panic(fmt.Sprintf("deref: not a pointer: %v", t))
}

// prepareCall determines the function value and argument values for a
// function call in a Call, Go or Defer instruction, performing
// interface method lookup if needed.
func prepareCall(fr *frame, call *ssa.CallCommon) (fn value, args []value) {
	v := fr.get(call.Value)
	if call.Method == nil {
		// Function call.
		fn = v
	} else {
		// Interface method invocation.
		recv := v.(iface)
		if recv.t == nil {
			panic(targetPanic{v: fr.i.runtimeErr("invalid memory address or nil pointer dereference (method " + call.Method.Name() + " invoked on nil interface)")})
		}
		if nt, ok := recv.t.(*nativeType); ok {
			fn = &nativeMethod{t: nt, name: call.Method.Name(), sig: call.Method.Type().(*types.Signature)}
		} else if f := lookupMethod(fr.i, recv.t, call.Method); f == nil {
			panic(fmt.Sprintf("method set for dynamic type %v does not contain %s", recv.t, call.Method))
		} else {
			fn = f
		}
		args = append(args, recv.v)
	}
	for _, arg := range call.Args {
		args = append(args, fr.get(arg))
	}
	return
}

// call interprets a call to a function (function, builtin or closure)
// fn with arguments args, returning its result.
func call(i *interpreter, caller *frame, callpos token.Pos, fn value, args []value) value {
	switch fn := fn.(type) {
	case *ssa.Function:
		if fn == nil {
			panic(targetPanic{v: i.runtimeErr("invalid memory address or nil pointer dereference (call of nil func)")})
		}
		return callSSA(i, caller, callpos, fn, args, nil)
	case *closure:
		return callSSA(i, caller, callpos, fn.Fn, args, fn.Env)
	case *ssa.Builtin:
		return callBuiltin(caller, callpos, fn, args)
	case *nativeMethod:
		if fn.t == blackholeType {
			i.stubs["blackhole."+fn.name]++
			res := fn.sig.Results()
			switch res.Len() {
			case 0:
				return nil
			case 1:
				return zero(res.At(0).Type())
			}
			out := make(tuple, res.Len())
			for k := range out {
				out[k] = zero(res.At(k).Type())
			}
			return out
		}
		return fn.t.call(i, caller, fn.name, args)
	case *nativeFunc:
		return fn.f(i, caller, args)
	}
	panic(fmt.Sprintf("cannot call %T", fn))
}

// callSSA interprets a call to function fn with arguments args,
// and lexical environment env, returning its result.
func callSSA(i *interpreter, caller *frame, callpos token.Pos, fn *ssa.Function, args []value, env []value) value {
	if i.cfg.Trace {
		fmt.Fprintf(os.Stderr, "%*sEntering %s\n", i.depth, "", fn)
	}
	if fn.Parent() == nil {
		if ov := i.overrides[fn]; ov != nil && !(caller != nil && caller.fn == ov) {
			// (a call from the override function itself reaches the original)
			i.stubs["override "+fn.String()+" -> "+ov.Name()]++
			fn = ov
		} else if i.skipExt == fn {
			i.skipExt = nil
		} else if ext := i.w.externalFor(fn); ext != nil {
			fr := &frame{i: i, caller: caller, fn: fn, pos: callpos}
			if caller != nil {
				fr.pos = caller.pos
			}
			return ext(fr, args)
		}
		if fn.Blocks == nil {
			if i.initing {
				// package initialisers: a foreign constructor yields the zero value; using
				// it later on a path surfaces as a nil dereference that replay does not confirm
				i.stubs["zero result for foreign call during package init: "+fn.String()]++
				fr := &frame{i: i, caller: caller, fn: fn}
				return zeroResult(fn)(fr, args)
			}
			i.unsupported("call of body-less function without stub: %s", fn)
		}
	}
	if fn.TypeParams().Len() > 0 && len(fn.TypeArgs()) == 0 {
		panic("interp requires ssa.BuilderMode to include InstantiateGenerics to execute generics")
	}
	i.depth++
	if i.depth > i.cfg.MaxDepth {
		panic(abortPath{"budget", fmt.Sprintf("call depth %d exceeded in %s", i.cfg.MaxDepth, fn)})
	}
	defer func() { i.depth-- }()
	if !i.initing {
		if p := fn.Package(); p != nil && i.w.isKeto[p] {
			i.funcs[fn.String()] = true
		} else if fn.Parent() != nil {
			if p := fn.Parent().Package(); p != nil && i.w.isKeto[p] {
				i.funcs[fn.String()] = true
			}
		}
	}

	fr := &frame{
		i:      i,
		caller: caller, // for panic/recover
		fn:     fn,
		pos:    fn.Pos(),
	}
	fr.info = i.w.funcInfoFor(fn)
	fr.regs = make([]value, fr.info.n)
	fr.block = fn.Blocks[0]
	fr.locals = make([]value, len(fn.Locals))
	for i, l := range fn.Locals {
		fr.locals[i] = zero(deref(l.Type()))
		fr.set(l, &fr.locals[i])
	}
	for i, p := range fn.Params {
		fr.set(p, args[i])
	}
	for i, fv := range fn.FreeVars {
		fr.set(fv, env[i])
	}
	for fr.block != nil {
		runFrame(fr)
	}
	return fr.result
}

// runFrame executes SSA instructions starting at fr.block and
// continuing until a return, a panic, or a recovered panic.
func runFrame(fr *frame) {
	defer func() {
		if fr.block == nil {
			return // normal return
		}
		r := recover()
		if ap, ok := r.(abortPath); ok {
			if (ap.status == "unsupported" || ap.status == "budget") && !strings.Contains(ap.reason, " [in ") {
				ap.reason += " [in " + fr.fn.String() + " at " + fr.where() + callerChain(fr) + "]"
			}
			panic(ap) // engine-internal: never visible to the target program
		}
		if s, ok := r.(string); ok && !strings.HasPrefix(s, "runtime error") {
			// interpreter bug or unsupported construct
			panic(abortPath{"unsupported", "interpreter panic: " + s + " in " + fr.fn.String() + " at " + fr.where()})
		}
		if e, ok := r.(error); ok {
			if _, isRE := r.(runtimeError); !isRE {
				panic(abortPath{"unsupported", "interpreter crash: " + e.Error() + " in " + fr.fn.String() + " at " + fr.where()})
			}
		}
		// annotate runtime errors of the target with the innermost location
		if tp, ok := r.(targetPanic); ok {
			if itf, ok := tp.v.(iface); ok && itf.t == fr.i.w.runtimeErrorString {
				if msg, ok := itf.v.(string); ok && !strings.Contains(msg, " [at ") {
					r = targetPanic{v: iface{t: itf.t, v: msg + " [at " + fr.where() + " in " + shortFn(fr.fn.String()) + "]"}}
				}
			}
		}
		fr.panicking = true
		fr.panic = r
		fr.runDefers()
		fr.block = fr.fn.Recover
	}()

	for {
		nonPhis := executePhis(fr)
		for _, instr := range nonPhis {
			if fr.i.cfg.Trace {
				if v, ok := instr.(ssa.Value); ok {
					fmt.Fprintf(os.Stderr, "%*s\t%s = %s\n", fr.i.depth, "", v.Name(), instr)
				} else {
					fmt.Fprintf(os.Stderr, "%*s\t%s\n", fr.i.depth, "", instr)
				}
			}
			if visitInstr(fr, instr) == kReturn {
				return
			}
		}
	}
}

func callerChain(fr *frame) string {
	s := ""
	n := 0
	for c := fr.caller; c != nil && n < 6; c = c.caller {
		s += " <- " + c.fn.String()
		n++
	}
	return s
}

// executePhis executes the phi-nodes at the start of the current
// block and returns the non-phi instructions.
func executePhis(fr *frame) []ssa.Instruction {
	firstNonPhi := -1
	for i, instr := range fr.block.Instrs {
		if _, ok := instr.(*ssa.Phi); !ok {
			firstNonPhi = i
			break
		}
	}
	nonPhis := fr.block.Instrs[firstNonPhi:]
	if firstNonPhi > 0 {
		phis := fr.block.Instrs[:firstNonPhi]
		predIndex := slices.Index(fr.block.Preds, fr.prevBlock)
		fr.phitemps = fr.phitemps[:0]
		for _, phi := range phis {
			phi := phi.(*ssa.Phi)
			fr.phitemps = append(fr.phitemps, fr.get(phi.Edges[predIndex]))
		}
		for i, phi := range phis {
			fr.set(phi.(*ssa.Phi), fr.phitemps[i])
		}
	}
	return nonPhis
}

// doRecover implements the recover() built-in.
func doRecover(caller *frame) value {
	if caller != nil && !caller.panicking &&
		caller.caller != nil && caller.caller.panicking {
		caller.caller.panicking = false
		p := caller.caller.panic
		caller.caller.panic = nil
		switch p := p.(type) {
		case targetPanic:
			return p.v
		case runtimeError:
			return caller.i.runtimeErr(string(p))
		default:
			panic(fmt.Sprintf("unexpected panic type %T in target call to recover()", p))
		}
	}
	return iface{}
}

// runtimeErr builds the value of a runtime.Error panic.
func (i *interpreter) runtimeErr(msg string) value {
	return iface{t: i.w.runtimeErrorString, v: "runtime error: " + msg}
}

func (i *interpreter) fatalErr(msg string) value {
	return iface{t: i.w.runtimeErrorString, v: "fatal error: " + msg}
}

// panicString renders a panic value for reports.
func (i *interpreter) panicString(v value) string {
	if itf, ok := v.(iface); ok {
		if itf.t == i.w.runtimeErrorString {
			return fmt.Sprint(itf.v)
		}
		if s, ok := itf.v.(string); ok {
			return s
		}
		if itf.t != nil {
			// error or Stringer?
			if s, ok := i.tryErrorString(itf); ok {
				return s
			}
		}
	}
	return toString(v)
}

func (i *interpreter) tryErrorString(itf iface) (s string, ok bool) {
	defer func() {
		if r := recover(); r != nil {
			if ap, isAbort := r.(abortPath); isAbort && ap.status != "unsupported" {
				panic(ap)
			}
			ok = false
		}
	}()
	for _, name := range []string{"Error", "String"} {
		ms := i.prog.MethodSets.MethodSet(itf.t)
		for k := 0; k < ms.Len(); k++ {
			sel := ms.At(k)
			if sel.Obj().Name() == name {
				if sig, _ := sel.Type().(*types.Signature); sig != nil && sig.Params().Len() == 0 && sig.Results().Len() == 1 {
					fn := i.prog.MethodValue(sel)
					if fn != nil {
						r := call(i, nil, token.NoPos, fn, []value{itf.v})
						if str, isStr := r.(string); isStr {
							return str, true
						}
					}
				}
			}
		}
	}
	return "", false
}

// concreteInt returns x as a concrete int64, concretising a symbolic value by
// solver enumeration.
func (i *interpreter) concreteInt(x value, what string) int64 {
	if x == nil {
		return 0
	}
	if s, ok := x.(*Sym); ok {
		v := i.ps.concretize(s.t, what)
		if kindSigned(s.k) {
			return signExt(v, kindBits(s.k))
		}
		return int64(v)
	}
	return asInt64(x)
}
