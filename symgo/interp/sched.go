package interp

// Goroutines as coroutines: every interpreted goroutine runs on a real Go
// goroutine, but only the holder of the baton executes. Channels, select,
// mutexes, wait groups and Once are modelled here with Go's semantics; every
// blocking or synchronising operation is a scheduling point.

import (
	"fmt"
	"go/token"
	"sort"
	"strings"
)

type goroutine struct {
	id       int
	wake     chan struct{}
	done     bool
	blocked  bool
	waitDesc string
	isMain   bool
	fired    *sudog
	exited   chan struct{}
	vc       []int // vector clock (race analysis)
	topFn    string
}

type sudog struct {
	g       *goroutine
	ch      *channel
	caseIdx int
	val     value
	ok      bool
	isSend  bool
	byClose bool
}

type channel struct {
	id     int
	cap    int
	buf    []value
	recvq  []*sudog
	sendq  []*sudog
	closed bool
	vc     []int
	bufvc  [][]int
}

type scheduler struct {
	i          *interpreter
	gs         []*goroutine
	runq       []*goroutine
	cur        *goroutine
	aborting   bool
	abortWith  *abortPath
	delaysUsed int
	nchan      int
	points     int
	deadlock   bool
}

func newScheduler(i *interpreter) *scheduler {
	s := &scheduler{i: i}
	m := &goroutine{id: 0, wake: make(chan struct{}, 1), isMain: true, topFn: "harness"}
	m.vc = []int{1}
	s.gs = []*goroutine{m}
	s.cur = m
	return s
}

// switchTo hands the baton to next and parks the caller (unless it is done).
func (s *scheduler) switchTo(next *goroutine) {
	prev := s.cur
	if next == prev {
		return
	}
	s.cur = next
	next.wake <- struct{}{}
	if prev.done {
		return
	}
	<-prev.wake
	if s.aborting {
		if s.abortWith != nil && prev.isMain {
			panic(*s.abortWith)
		}
		panic(abortPath{"stop", "path aborted"})
	}
}

func (s *scheduler) popRunnable() *goroutine {
	if len(s.runq) == 0 {
		return nil
	}
	g := s.runq[0]
	s.runq = s.runq[1:]
	return g
}

// point is a scheduling point at which the running goroutine may be delayed
// (delay-bounded exploration).
func (s *scheduler) point(what string) {
	s.points++
	if len(s.runq) == 0 || s.delaysUsed >= s.i.cfg.DelayBound {
		return
	}
	if s.i.ps.choose(2, "delay@"+what) == 1 {
		s.delaysUsed++
		next := s.popRunnable()
		s.runq = append(s.runq, s.cur)
		s.switchTo(next)
	}
}

// block parks the running goroutine until another one makes it runnable.
func (s *scheduler) block(desc string) {
	g := s.cur
	g.blocked = true
	g.waitDesc = desc
	next := s.popRunnable()
	if next == nil {
		s.onDeadlock()
		return
	}
	s.switchTo(next)
	g.blocked = false
}

// onDeadlock: nothing is runnable and the current goroutine is about to block.
func (s *scheduler) onDeadlock() {
	s.deadlock = true
	main := s.gs[0]
	desc := s.describeBlocked()
	ap := abortPath{"deadlock", desc}
	if s.cur == main {
		panic(ap)
	}
	// wake main with the abort
	s.aborting = true
	s.abortWith = &ap
	if main.done {
		// main already finished (quiescing at harness end): just stop this goroutine
		panic(abortPath{"stop", "deadlock after main finished"})
	}
	cur := s.cur
	s.cur = main
	main.wake <- struct{}{}
	<-cur.wake
	panic(abortPath{"stop", "path aborted"})
}

// describeBlocked lists who is blocked where (main first, the others as a
// sorted set without goroutine numbers, so that equal situations compare equal).
func (s *scheduler) describeBlocked() string {
	d := ""
	seen := map[string]bool{}
	var others []string
	for _, g := range s.gs {
		if !g.done && (g.blocked || g == s.cur) {
			if g.isMain {
				d = "main blocked at " + g.waitDesc + "; others: "
				continue
			}
			k := shortFn(g.topFn) + " at " + g.waitDesc
			if !seen[k] {
				seen[k] = true
				others = append(others, k)
			}
		}
	}
	sort.Strings(others)
	return d + strings.Join(others, " | ")
}

func shortFn(s string) string {
	s = strings.ReplaceAll(s, "github.com/ory/keto/internal/", "")
	return s
}

func (s *scheduler) ready(g *goroutine) {
	g.blocked = false
	s.runq = append(s.runq, g)
}

// spawn starts fn(args) as a new goroutine.
func (s *scheduler) spawn(fn value, args []value, pos token.Pos) {
	g := &goroutine{id: len(s.gs), wake: make(chan struct{}, 1), exited: make(chan struct{})}
	switch f := fn.(type) {
	case *closure:
		g.topFn = f.Fn.String()
	default:
		g.topFn = fmt.Sprint(fn)
	}
	// vector clocks: child inherits parent's clock
	g.vc = make([]int, len(s.gs)+1)
	copy(g.vc, s.cur.vc)
	g.vc[g.id] = 1
	s.tick(s.cur)
	s.gs = append(s.gs, g)
	i := s.i
	go func() {
		defer close(g.exited)
		<-g.wake
		defer func() {
			r := recover()
			g.done = true
			if s.aborting {
				return
			}
			if r != nil {
				var ap abortPath
				switch r := r.(type) {
				case abortPath:
					if r.status == "stop" {
						return
					}
					ap = r
				case targetPanic:
					ap = abortPath{"panic", "panic in goroutine " + g.topFn + ": " + i.panicString(r.v)}
				case runtimeError:
					ap = abortPath{"panic", "panic in goroutine " + g.topFn + ": runtime error: " + string(r)}
				default:
					ap = abortPath{"unsupported", fmt.Sprintf("interpreter crash in goroutine %s: %v", g.topFn, r)}
				}
				// hand the abort to main
				s.aborting = true
				s.abortWith = &ap
				main := s.gs[0]
				if !main.done {
					s.cur = main
					main.wake <- struct{}{}
				}
				return
			}
			// normal exit: pass the baton on
			next := s.popRunnable()
			if next == nil {
				main := s.gs[0]
				if main.done {
					return
				}
				// everyone else is blocked; main is blocked too => deadlock
				s.deadlock = true
				ap := abortPath{"deadlock", s.describeBlocked()}
				s.aborting = true
				s.abortWith = &ap
				s.cur = main
				main.wake <- struct{}{}
				return
			}
			s.cur = next
			next.wake <- struct{}{}
		}()
		if s.aborting {
			panic(abortPath{"stop", "path aborted"})
		}
		call(i, nil, pos, fn, args)
	}()
	if i.cfg.SchedLIFO {
		// run the new goroutine first
		s.runq = append([]*goroutine{s.cur}, s.runq...)
		s.switchTo(g)
		return
	}
	s.runq = append(s.runq, g)
	s.point("go")
}

// quiesce lets every other goroutine run until all are blocked or done and
// returns the descriptions of those still alive.
func (s *scheduler) quiesce() []string {
	for len(s.runq) > 0 {
		next := s.popRunnable()
		s.runq = append(s.runq, s.cur)
		s.switchTo(next)
		// we are runnable again when someone pops us from runq
	}
	var alive []string
	for _, g := range s.gs {
		if !g.done && g != s.cur {
			alive = append(alive, fmt.Sprintf("g%d %s blocked at %s", g.id, g.topFn, g.waitDesc))
		}
	}
	return alive
}

// killAll terminates every parked goroutine (path end).
func (s *scheduler) killAll() {
	s.aborting = true
	for _, g := range s.gs[1:] {
		if !g.done {
			select {
			case g.wake <- struct{}{}:
			default:
			}
		}
	}
	for _, g := range s.gs[1:] {
		<-g.exited
	}
}

// ---------------------------------------------------------------------------
// vector clocks (only maintained when race analysis is on)

func (s *scheduler) tick(g *goroutine) {
	if !s.i.cfg.Race {
		return
	}
	for len(g.vc) <= g.id {
		g.vc = append(g.vc, 0)
	}
	g.vc[g.id]++
}

func vcJoin(a, b []int) []int {
	if len(b) > len(a) {
		n := make([]int, len(b))
		copy(n, a)
		a = n
	}
	for i, x := range b {
		if x > a[i] {
			a[i] = x
		}
	}
	return a
}

func vcCopy(a []int) []int { return append([]int(nil), a...) }

// acquire/release implement happens-before edges through a sync object.
func (s *scheduler) release(obj *[]int) {
	if !s.i.cfg.Race {
		return
	}
	*obj = vcJoin(vcCopy(*obj), s.cur.vc)
	s.tick(s.cur)
}

func (s *scheduler) acquire(obj *[]int) {
	if !s.i.cfg.Race {
		return
	}
	s.cur.vc = vcJoin(s.cur.vc, *obj)
}

// ---------------------------------------------------------------------------
// channels

func (s *scheduler) makeChan(capacity int) *channel {
	s.nchan++
	return &channel{id: s.nchan, cap: capacity}
}

func removeSudog(q []*sudog, sg *sudog) []*sudog {
	for i, x := range q {
		if x == sg {
			return append(q[:i:i], q[i+1:]...)
		}
	}
	return q
}

// dequeue pops the first waiter whose goroutine has not been fired yet by
// another case of its select, and removes the goroutine's other sudogs.
func (s *scheduler) dequeue(q *[]*sudog) *sudog {
	for len(*q) > 0 {
		sg := (*q)[0]
		*q = (*q)[1:]
		if sg.g.fired != nil {
			continue
		}
		sg.g.fired = sg
		return sg
	}
	return nil
}

func (s *scheduler) send(ch *channel, v value, where string) {
	s.point("send")
	if ch == nil {
		s.cur.waitDesc = "send on nil channel " + where
		s.block("send on nil channel " + where)
		panic(abortPath{"stop", "unreachable"})
	}
	if ch.closed {
		panic(targetPanic{v: s.i.runtimeErr("send on closed channel")})
	}
	if sg := s.dequeue(&ch.recvq); sg != nil {
		sg.val, sg.ok = v, true
		if s.i.cfg.Race {
			sg.g.vc = vcJoin(sg.g.vc, s.cur.vc)
			s.cur.vc = vcJoin(s.cur.vc, sg.g.vc)
			s.tick(s.cur)
		}
		s.ready(sg.g)
		return
	}
	if len(ch.buf) < ch.cap {
		ch.buf = append(ch.buf, v)
		if s.i.cfg.Race {
			ch.bufvc = append(ch.bufvc, vcCopy(s.cur.vc))
			s.tick(s.cur)
		}
		return
	}
	sg := &sudog{g: s.cur, ch: ch, val: v, isSend: true, caseIdx: -1}
	s.cur.fired = nil
	ch.sendq = append(ch.sendq, sg)
	s.block(fmt.Sprintf("chan send %s", where))
	f := s.cur.fired
	s.cur.fired = nil
	if f != nil && f.byClose {
		panic(targetPanic{v: s.i.runtimeErr("send on closed channel")})
	}
}

func (s *scheduler) recv(ch *channel, where string) (value, bool) {
	s.point("recv")
	if ch == nil {
		s.block("receive from nil channel " + where)
		panic(abortPath{"stop", "unreachable"})
	}
	if v, ok, done := s.tryRecv(ch); done {
		return v, ok
	}
	sg := &sudog{g: s.cur, ch: ch, caseIdx: -1}
	s.cur.fired = nil
	ch.recvq = append(ch.recvq, sg)
	s.block(fmt.Sprintf("chan receive %s", where))
	s.cur.fired = nil
	return sg.val, sg.ok
}

// tryRecv performs a receive if it can proceed immediately.
func (s *scheduler) tryRecv(ch *channel) (v value, ok bool, done bool) {
	if len(ch.buf) > 0 {
		v = ch.buf[0]
		ch.buf = ch.buf[1:]
		if s.i.cfg.Race && len(ch.bufvc) > 0 {
			s.cur.vc = vcJoin(s.cur.vc, ch.bufvc[0])
			ch.bufvc = ch.bufvc[1:]
		}
		// a blocked sender can now move its value into the buffer
		if sg := s.dequeue(&ch.sendq); sg != nil {
			ch.buf = append(ch.buf, sg.val)
			if s.i.cfg.Race {
				ch.bufvc = append(ch.bufvc, vcCopy(sg.g.vc))
			}
			s.ready(sg.g)
		}
		return v, true, true
	}
	if sg := s.dequeue(&ch.sendq); sg != nil {
		if s.i.cfg.Race {
			s.cur.vc = vcJoin(s.cur.vc, sg.g.vc)
			sg.g.vc = vcJoin(sg.g.vc, s.cur.vc)
			s.tick(s.cur)
		}
		s.ready(sg.g)
		return sg.val, true, true
	}
	if ch.closed {
		if s.i.cfg.Race {
			s.cur.vc = vcJoin(s.cur.vc, ch.vc)
		}
		return nil, false, true
	}
	return nil, false, false
}

func (s *scheduler) closeChan(ch *channel) {
	s.point("close")
	if ch == nil {
		panic(targetPanic{v: s.i.runtimeErr("close of nil channel")})
	}
	if ch.closed {
		panic(targetPanic{v: s.i.runtimeErr("close of closed channel")})
	}
	ch.closed = true
	if s.i.cfg.Race {
		ch.vc = vcJoin(vcCopy(ch.vc), s.cur.vc)
		s.tick(s.cur)
	}
	for {
		sg := s.dequeue(&ch.recvq)
		if sg == nil {
			break
		}
		sg.val, sg.ok, sg.byClose = nil, false, true
		if s.i.cfg.Race {
			sg.g.vc = vcJoin(sg.g.vc, ch.vc)
		}
		s.ready(sg.g)
	}
	for {
		sg := s.dequeue(&ch.sendq)
		if sg == nil {
			break
		}
		sg.byClose = true
		s.ready(sg.g)
	}
}

type selCase struct {
	ch     *channel
	isSend bool
	val    value
}

// selectOp implements select. It returns the chosen case index (-1 for
// default), the received value and ok flag.
func (s *scheduler) selectOp(cases []selCase, blocking bool, where string) (int, value, bool) {
	s.point("select")
	var ready []int
	for k, c := range cases {
		if c.ch == nil {
			continue
		}
		if c.isSend {
			if c.ch.closed || s.hasLiveWaiter(c.ch.recvq) || len(c.ch.buf) < c.ch.cap {
				ready = append(ready, k)
			}
		} else {
			if len(c.ch.buf) > 0 || s.hasLiveWaiter(c.ch.sendq) || c.ch.closed {
				ready = append(ready, k)
			}
		}
	}
	if len(ready) > 0 {
		k := ready[0]
		if len(ready) > 1 {
			k = ready[s.i.ps.choose(len(ready), "select")]
		}
		c := cases[k]
		if c.isSend {
			if c.ch.closed {
				panic(targetPanic{v: s.i.runtimeErr("send on closed channel")})
			}
			if sg := s.dequeue(&c.ch.recvq); sg != nil {
				sg.val, sg.ok = c.val, true
				if s.i.cfg.Race {
					sg.g.vc = vcJoin(sg.g.vc, s.cur.vc)
					s.cur.vc = vcJoin(s.cur.vc, sg.g.vc)
					s.tick(s.cur)
				}
				s.ready(sg.g)
			} else {
				c.ch.buf = append(c.ch.buf, c.val)
				if s.i.cfg.Race {
					c.ch.bufvc = append(c.ch.bufvc, vcCopy(s.cur.vc))
					s.tick(s.cur)
				}
			}
			return k, nil, false
		}
		v, ok, _ := s.tryRecv(c.ch)
		return k, v, ok
	}
	if !blocking {
		return -1, nil, false
	}
	var sgs []*sudog
	s.cur.fired = nil
	for k, c := range cases {
		if c.ch == nil {
			continue
		}
		sg := &sudog{g: s.cur, ch: c.ch, caseIdx: k, isSend: c.isSend, val: c.val}
		sgs = append(sgs, sg)
		if c.isSend {
			c.ch.sendq = append(c.ch.sendq, sg)
		} else {
			c.ch.recvq = append(c.ch.recvq, sg)
		}
	}
	s.block("select " + where)
	f := s.cur.fired
	s.cur.fired = nil
	for _, sg := range sgs {
		if sg != f {
			if sg.isSend {
				sg.ch.sendq = removeSudog(sg.ch.sendq, sg)
			} else {
				sg.ch.recvq = removeSudog(sg.ch.recvq, sg)
			}
		}
	}
	if f == nil {
		panic(abortPath{"unsupported", "select woken without a fired case"})
	}
	if f.isSend {
		if f.byClose {
			panic(targetPanic{v: s.i.runtimeErr("send on closed channel")})
		}
		return f.caseIdx, nil, false
	}
	return f.caseIdx, f.val, f.ok
}

func (s *scheduler) hasLiveWaiter(q []*sudog) bool {
	for _, sg := range q {
		if sg.g.fired == nil && sg.g != s.cur {
			return true
		}
	}
	return false
}

// ---------------------------------------------------------------------------
// sync primitives, keyed by the address of the object

type mutexState struct {
	locked  bool
	readers int
	waiters []*goroutine
	vc      []int
}

type onceState struct {
	done    bool
	running bool
	waiters []*goroutine
	vc      []int
}

type wgState struct {
	n       int64
	waiters []*goroutine
	vc      []int
}

func (s *scheduler) mutexOf(addr *value) *mutexState {
	m := s.i.mutexes[addr]
	if m == nil {
		m = &mutexState{}
		s.i.mutexes[addr] = m
	}
	return m
}

func (s *scheduler) lock(addr *value, where string) {
	s.point("lock")
	m := s.mutexOf(addr)
	for m.locked || m.readers > 0 {
		m.waiters = append(m.waiters, s.cur)
		s.block("sync.Mutex.Lock " + where)
	}
	m.locked = true
	s.acquire(&m.vc)
}

func (s *scheduler) tryLock(addr *value) bool {
	m := s.mutexOf(addr)
	if m.locked || m.readers > 0 {
		return false
	}
	m.locked = true
	s.acquire(&m.vc)
	return true
}

func (s *scheduler) unlock(addr *value) {
	m := s.mutexOf(addr)
	if !m.locked {
		panic(targetPanic{v: s.i.fatalErr("sync: unlock of unlocked mutex")})
	}
	s.release(&m.vc)
	m.locked = false
	s.wakeAll(&m.waiters)
	s.point("unlock")
}

func (s *scheduler) rlock(addr *value, where string) {
	s.point("rlock")
	m := s.mutexOf(addr)
	for m.locked {
		m.waiters = append(m.waiters, s.cur)
		s.block("sync.RWMutex.RLock " + where)
	}
	m.readers++
	s.acquire(&m.vc)
}

func (s *scheduler) runlock(addr *value) {
	m := s.mutexOf(addr)
	if m.readers <= 0 {
		panic(targetPanic{v: s.i.fatalErr("sync: RUnlock of unlocked RWMutex")})
	}
	s.release(&m.vc)
	m.readers--
	if m.readers == 0 {
		s.wakeAll(&m.waiters)
	}
	s.point("runlock")
}

func (s *scheduler) wakeAll(ws *[]*goroutine) {
	for _, g := range *ws {
		s.ready(g)
	}
	*ws = nil
}

func (s *scheduler) onceDo(addr *value, f value, where string) {
	s.point("once")
	o := s.i.onces[addr]
	if o == nil {
		o = &onceState{}
		s.i.onces[addr] = o
	}
	for o.running {
		o.waiters = append(o.waiters, s.cur)
		s.block("sync.Once.Do " + where)
	}
	if o.done {
		s.acquire(&o.vc)
		return
	}
	o.running = true
	defer func() {
		o.running = false
		o.done = true
		s.release(&o.vc)
		s.wakeAll(&o.waiters)
	}()
	call(s.i, nil, token.NoPos, f, nil)
}

func (s *scheduler) wgOf(addr *value) *wgState {
	w := s.i.wgs[addr]
	if w == nil {
		w = &wgState{}
		s.i.wgs[addr] = w
	}
	return w
}

func (s *scheduler) wgAdd(addr *value, d int64) {
	w := s.wgOf(addr)
	w.n += d
	if w.n < 0 {
		panic(targetPanic{v: s.i.runtimeErr("sync: negative WaitGroup counter")})
	}
	if d < 0 {
		s.release(&w.vc)
	}
	if w.n == 0 {
		s.wakeAll(&w.waiters)
	}
	s.point("wg.Add")
}

func (s *scheduler) wgWait(addr *value, where string) {
	s.point("wg.Wait")
	w := s.wgOf(addr)
	for w.n > 0 {
		w.waiters = append(w.waiters, s.cur)
		s.block("sync.WaitGroup.Wait " + where)
	}
	s.acquire(&w.vc)
}
