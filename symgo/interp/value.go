// Copyright 2013 The Go Authors. All rights reserved.
// Use of this source code is governed by a BSD-style
// license that can be found in the LICENSE file.

package interp

// Values
//
// All interpreter values are "boxed" in the empty interface, value.
// The range of possible dynamic types within value are:
//
// - bool
// - numbers (all built-in int/float/complex types are distinguished)
// - string
// - map[value]value --- maps for which  usesBuiltinMap(keyType)
//   *hashmap        --- maps for which !usesBuiltinMap(keyType)
// - chan value
// - []value --- slices
// - iface --- interfaces.
// - structure --- structs.  Fields are ordered and accessed by numeric indices.
// - array --- arrays.
// - *value --- pointers.  Careful: *value is a distinct type from *array etc.
// - *ssa.Function \
//   *ssa.Builtin   } --- functions.  A nil 'func' is always of type *ssa.Function.
//   *closure      /
// - tuple --- as returned by Return, Next, "value,ok" modes, etc.
// - iter --- iterators from 'range' over map or string.
// - bad --- a poison pill for locals that have gone out of scope.
// - rtype -- the interpreter's concrete implementation of reflect.Type
// - **deferred -- the address of a frame's defer stack for a Defer._Stack.
//
// Note that nil is not on this list.
//
// Pay close attention to whether or not the dynamic type is a pointer.
// The compiler cannot help you since value is an empty interface.

import (
	"bytes"
	"fmt"
	"go/types"
	"strconv"
	"strings"
	"unicode/utf8"

	"golang.org/x/tools/go/ssa"
)

type value interface{}

type tuple []value

type array []value

type iface struct {
	t types.Type // never an "untyped" type
	v value
}

type structure []value

// For map, array, *array, slice, string or channel.
type iter interface {
	// next returns a Tuple (key, value, ok).
	// key and value are unaliased, e.g. copies of the sequence element.
	next() tuple
}

type closure struct {
	Fn  *ssa.Function
	Env []value
}

type bad struct{}


func (x array) eq(t types.Type, _y interface{}) bool {
	y := _y.(array)
	tElt := t.Underlying().(*types.Array).Elem()
	for i, xi := range x {
		if !equals(tElt, xi, y[i]) {
			return false
		}
	}
	return true
}

func (x structure) eq(t types.Type, _y interface{}) bool {
	y := _y.(structure)
	tStruct := t.Underlying().(*types.Struct)
	for i, n := 0, tStruct.NumFields(); i < n; i++ {
		if f := tStruct.Field(i); !f.Anonymous() {
			if !equals(f.Type(), x[i], y[i]) {
				return false
			}
		}
	}
	return true
}

// nil-tolerant variant of types.Identical.
func sameType(x, y types.Type) bool {
	if x == nil {
		return y == nil
	}
	if y == nil {
		return false
	}
	// executor-native types are not go/types types: identical only to themselves
	_, nx := x.(*nativeType)
	_, ny := y.(*nativeType)
	if nx || ny {
		return x == y
	}
	return types.Identical(x, y)
}

func (x iface) eq(t types.Type, _y interface{}) bool {
	y := _y.(iface)
	return sameType(x.t, y.t) && (x.t == nil || equals(x.t, x.v, y.v))
}

// equals returns true iff x and y are equal according to Go's
// linguistic equivalence relation for type t.
// In a well-typed program, the dynamic types of x and y are
// guaranteed equal.
func equals(t types.Type, x, y value) bool {
	switch x := x.(type) {
	case bool:
		return x == y.(bool)
	case int:
		return x == y.(int)
	case int8:
		return x == y.(int8)
	case int16:
		return x == y.(int16)
	case int32:
		return x == y.(int32)
	case int64:
		return x == y.(int64)
	case uint:
		return x == y.(uint)
	case uint8:
		return x == y.(uint8)
	case uint16:
		return x == y.(uint16)
	case uint32:
		return x == y.(uint32)
	case uint64:
		return x == y.(uint64)
	case uintptr:
		return x == y.(uintptr)
	case float32:
		return x == y.(float32)
	case float64:
		return x == y.(float64)
	case complex64:
		return x == y.(complex64)
	case complex128:
		return x == y.(complex128)
	case string:
		return x == y.(string)
	case *value:
		return x == y.(*value)
	case *channel:
		return x == y.(*channel)
	case structure:
		return x.eq(t, y)
	case array:
		return x.eq(t, y)
	case iface:
		return x.eq(t, y)
	case *nativeObj:
		return x == y.(*nativeObj)
	}

	// Since map, func and slice don't support comparison, this
	// case is only reachable if one of x or y is literally nil
	// (handled in eqnil) or via interface{} values.
	panic(fmt.Sprintf("comparing uncomparable type %s", t))
}

// reflect.Value struct values don't have a fixed shape, since the
// payload can be a scalar or an aggregate depending on the instance.
// So store (and load) can't simply use recursion over the shape of the
// rhs value, or the lhs, to copy the value; we need the static type
// information.  (We can't make reflect.Value a new basic data type
// because its "structness" is exposed to Go programs.)

// load returns the value of type T in *addr.
func load(T types.Type, addr *value) value {
	switch T := T.Underlying().(type) {
	case *types.Struct:
		v := (*addr).(structure)
		a := make(structure, len(v))
		for i := range a {
			a[i] = load(T.Field(i).Type(), &v[i])
		}
		return a
	case *types.Array:
		v := (*addr).(array)
		a := make(array, len(v))
		for i := range a {
			a[i] = load(T.Elem(), &v[i])
		}
		return a
	default:
		return *addr
	}
}

// store stores value v of type T into *addr.
func store(T types.Type, addr *value, v value) {
	switch T := T.Underlying().(type) {
	case *types.Struct:
		lhs := (*addr).(structure)
		rhs := v.(structure)
		for i := range lhs {
			store(T.Field(i).Type(), &lhs[i], rhs[i])
		}
	case *types.Array:
		lhs := (*addr).(array)
		rhs := v.(array)
		for i := range lhs {
			store(T.Elem(), &lhs[i], rhs[i])
		}
	default:
		*addr = v
	}
}

// Prints in the style of built-in println.
// (More or less; in gc println is actually a compiler intrinsic and
// can distinguish println(1) from println(interface{}(1)).)
func writeValue(buf *bytes.Buffer, v value) {
	switch v := v.(type) {
	case nil, bool, int, int8, int16, int32, int64, uint, uint8, uint16, uint32, uint64, uintptr, float32, float64, complex64, complex128, string:
		fmt.Fprintf(buf, "%v", v)

	case *omap:
		buf.WriteString("map[")
		sep := ""
		if v != nil {
			for k := range v.keys {
				if !v.alive[k] {
					continue
				}
				buf.WriteString(sep)
				sep = " "
				writeValue(buf, v.keys[k])
				buf.WriteString(":")
				writeValue(buf, v.vals[k])
			}
		}
		buf.WriteString("]")

	case *channel:
		if v == nil {
			buf.WriteString("<nil chan>")
		} else {
			fmt.Fprintf(buf, "chan#%d", v.id)
		}

	case *Sym:
		buf.WriteString("sym:" + v.t.String())

	case sstring:
		buf.WriteString("sstring[")
		for _, e := range v.b {
			writeValue(buf, e)
			buf.WriteString(" ")
		}
		buf.WriteString("]")

	case ostring:
		buf.WriteString("ostring:" + v.t.String())

	case *value:
		if v == nil {
			buf.WriteString("<nil>")
		} else {
			fmt.Fprintf(buf, "%p", v)
		}

	case iface:
		fmt.Fprintf(buf, "(%s, ", v.t)
		writeValue(buf, v.v)
		buf.WriteString(")")

	case structure:
		buf.WriteString("{")
		for i, e := range v {
			if i > 0 {
				buf.WriteString(" ")
			}
			writeValue(buf, e)
		}
		buf.WriteString("}")

	case array:
		buf.WriteString("[")
		for i, e := range v {
			if i > 0 {
				buf.WriteString(" ")
			}
			writeValue(buf, e)
		}
		buf.WriteString("]")

	case []value:
		buf.WriteString("[")
		for i, e := range v {
			if i > 0 {
				buf.WriteString(" ")
			}
			writeValue(buf, e)
		}
		buf.WriteString("]")

	case *ssa.Function, *ssa.Builtin, *closure:
		fmt.Fprintf(buf, "%p", v) // (an address)

	case tuple:
		// Unreachable in well-formed Go programs
		buf.WriteString("(")
		for i, e := range v {
			if i > 0 {
				buf.WriteString(", ")
			}
			writeValue(buf, e)
		}
		buf.WriteString(")")

	default:
		fmt.Fprintf(buf, "<%T>", v)
	}
}

// Implements printing of Go values in the style of built-in println.
func toString(v value) string {
	var b bytes.Buffer
	writeValue(&b, v)
	return b.String()
}

// ------------------------------------------------------------------------
// Iterators

type stringIter struct {
	s string
	i int
}

func (it *stringIter) next() tuple {
	okv := make(tuple, 3)
	if it.i >= len(it.s) {
		okv[0] = false
		return okv
	}
	ch, n := utf8.DecodeRuneInString(it.s[it.i:])
	okv[0] = true
	okv[1] = it.i
	okv[2] = ch
	it.i += n
	return okv
}

type mapIter struct {
	m     *omap
	k     int
	order []int // explicit order (MapOrderFork)
}

func (it *mapIter) next() tuple {
	if it.order != nil {
		for it.k < len(it.order) {
			k := it.order[it.k]
			it.k++
			if it.m.alive[k] {
				return []value{true, it.m.keys[k], it.m.vals[k]}
			}
		}
		return []value{false, nil, nil}
	}
	if it.m != nil {
		for it.k < len(it.m.keys) {
			k := it.k
			it.k++
			if it.m.alive[k] {
				return []value{true, it.m.keys[k], it.m.vals[k]}
			}
		}
	}
	return []value{false, nil, nil}
}

// ------------------------------------------------------------------------
// Insertion-ordered map (deterministic iteration, needed for re-execution).

type omap struct {
	keyType types.Type
	keys    []value
	vals    []value
	alive   []bool
	index   map[string]int
	n       int
	cell    value // stand-in address for race analysis
}

func makeMap(kt types.Type, reserve int64) value {
	return &omap{keyType: kt, index: make(map[string]int)}
}

// keyString is a canonical, injective rendering of a concrete map key.
func keyString(v value) string {
	var sb strings.Builder
	writeKey(&sb, v)
	return sb.String()
}

func writeKey(sb *strings.Builder, v value) {
	switch v := v.(type) {
	case nil:
		sb.WriteString("nil")
	case bool:
		sb.WriteString(strconv.FormatBool(v))
	case string:
		sb.WriteString("s")
		sb.WriteString(strconv.Itoa(len(v)))
		sb.WriteString(":")
		sb.WriteString(v)
	case int, int8, int16, int32, int64:
		sb.WriteString("i")
		sb.WriteString(strconv.FormatInt(asInt64(v), 10))
	case uint, uint8, uint16, uint32, uint64, uintptr:
		sb.WriteString("u")
		sb.WriteString(strconv.FormatInt(asInt64(v), 10))
	case float32:
		sb.WriteString("f" + strconv.FormatFloat(float64(v), 'g', -1, 32))
	case float64:
		sb.WriteString("f" + strconv.FormatFloat(v, 'g', -1, 64))
	case *value:
		fmt.Fprintf(sb, "p%p", v)
	case *channel:
		fmt.Fprintf(sb, "c%p", v)
	case *nativeObj:
		fmt.Fprintf(sb, "n%p", v)
	case iface:
		if v.t == nil {
			sb.WriteString("I<nil>")
		} else {
			sb.WriteString("I<" + v.t.String() + ">")
			writeKey(sb, v.v)
		}
	case structure:
		sb.WriteString("{")
		for _, e := range v {
			writeKey(sb, e)
			sb.WriteString(",")
		}
		sb.WriteString("}")
	case array:
		sb.WriteString("[")
		for _, e := range v {
			writeKey(sb, e)
			sb.WriteString(",")
		}
		sb.WriteString("]")
	default:
		panic(abortPath{"unsupported", fmt.Sprintf("map key of kind %T", v)})
	}
}

func (m *omap) lookup(k value) (value, bool) {
	if m == nil {
		return nil, false
	}
	if p, ok := m.index[keyString(k)]; ok {
		return m.vals[p], true
	}
	return nil, false
}

func (m *omap) insert(k value, v value) {
	ks := keyString(k)
	if p, ok := m.index[ks]; ok {
		m.vals[p] = v
		return
	}
	m.index[ks] = len(m.keys)
	m.keys = append(m.keys, k)
	m.vals = append(m.vals, v)
	m.alive = append(m.alive, true)
	m.n++
}

func (m *omap) delete(k value) {
	if m == nil {
		return
	}
	ks := keyString(k)
	if p, ok := m.index[ks]; ok {
		m.alive[p] = false
		m.vals[p] = nil
		delete(m.index, ks)
		m.n--
	}
}

func (m *omap) len() int {
	if m == nil {
		return 0
	}
	return m.n
}
