package interp

// World: the loaded program (regenerated from /repo's working tree on every
// run) plus everything that is shared read-only between paths and workers.

import (
	"crypto/sha256"
	"fmt"
	"go/token"
	"go/types"
	"os"
	"sort"
	"strings"
	"sync"
	"time"

	"golang.org/x/tools/go/packages"
	"golang.org/x/tools/go/ssa"
	"golang.org/x/tools/go/ssa/ssautil"
)

type LoadConfig struct {
	RepoDir  string
	Patterns []string          // packages loaded with syntax (bodies available)
	Overlay  map[string][]byte // harness files injected into package directories
	Tags     string
}

type World struct {
	Prog          *ssa.Program
	Pkgs          []*packages.Package
	ssaPkgs       map[string]*ssa.Package
	sharedGlobals map[*ssa.Global]*value
	pkgInited     map[*ssa.Package]bool
	isKeto        map[*ssa.Package]bool
	perPathPkgs   []*ssa.Package
	runtimeErrorString types.Type
	extCache      sync.Map // *ssa.Function -> externalFn (or nil marker)
	fnInfo        sync.Map // *ssa.Function -> *funcInfo
	sentinelMu    sync.Mutex
	LoadTime      time.Duration
	FileHashes    map[string]string
	fnIndex       map[string]*ssa.Function
}

var runtimeErrorStringType = types.NewNamed(types.NewTypeName(token.NoPos, nil, "runtime.errorString", nil), types.Typ[types.String], nil)

func isKetoPath(p string) bool {
	return strings.HasPrefix(p, "github.com/ory/keto") && !strings.HasPrefix(p, "github.com/ory/keto/proto")
}

// initSkipped lists packages whose initialisers are never interpreted even
// when their source is loaded.
func initSkipped(path string) bool {
	return strings.HasPrefix(path, "github.com/ory/keto/proto")
}

func Load(lc LoadConfig) (*World, error) {
	t0 := time.Now()
	env := append(os.Environ(), "GOFLAGS=-mod=mod", "GOPROXY=off")
	cfg := &packages.Config{
		Mode:       packages.LoadSyntax | packages.NeedModule,
		Dir:        lc.RepoDir,
		BuildFlags: []string{"-tags=" + lc.Tags},
		Env:        env,
		Overlay:    lc.Overlay,
	}
	pkgs, err := packages.Load(cfg, lc.Patterns...)
	if err != nil {
		return nil, err
	}
	var errs []string
	packages.Visit(pkgs, nil, func(p *packages.Package) {
		for _, e := range p.Errors {
			errs = append(errs, p.PkgPath+": "+e.Error())
		}
	})
	if len(errs) > 0 {
		if len(errs) > 12 {
			errs = errs[:12]
		}
		return nil, fmt.Errorf("package load errors:\n  %s", strings.Join(errs, "\n  "))
	}
	prog, _ := ssautil.Packages(pkgs, ssa.InstantiateGenerics)
	prog.Build()
	w := &World{
		Prog:          prog,
		Pkgs:          pkgs,
		ssaPkgs:       map[string]*ssa.Package{},
		sharedGlobals: map[*ssa.Global]*value{},
		pkgInited:     map[*ssa.Package]bool{},
		isKeto:        map[*ssa.Package]bool{},
		FileHashes:    map[string]string{},
		fnIndex:       map[string]*ssa.Function{},
	}
	w.runtimeErrorString = runtimeErrorStringType
	for _, p := range prog.AllPackages() {
		w.ssaPkgs[p.Pkg.Path()] = p
		if isKetoPath(p.Pkg.Path()) {
			w.isKeto[p] = true
		}
	}
	// hashes of the repo source files whose bodies are available
	for _, p := range pkgs {
		if !isKetoPath(p.PkgPath) {
			continue
		}
		for _, f := range p.CompiledGoFiles {
			if b, err := os.ReadFile(f); err == nil {
				w.FileHashes[strings.TrimPrefix(f, lc.RepoDir+"/")] = fmt.Sprintf("%x", sha256.Sum256(b))
			} else if ov, ok := lc.Overlay[f]; ok {
				w.FileHashes["(overlay) "+strings.TrimPrefix(f, lc.RepoDir+"/")] = fmt.Sprintf("%x", sha256.Sum256(ov))
			}
		}
	}
	// storage for globals: shared for non-keto packages, per path for keto ones
	withSyntax := map[string]bool{}
	for _, p := range pkgs {
		withSyntax[p.PkgPath] = true
	}
	var shared []*ssa.Package
	for _, p := range prog.AllPackages() {
		if w.isKeto[p] {
			if withSyntax[p.Pkg.Path()] {
				w.perPathPkgs = append(w.perPathPkgs, p)
			}
			continue
		}
		for _, m := range p.Members {
			if g, ok := m.(*ssa.Global); ok {
				cell := zero(deref(g.Type()))
				w.sharedGlobals[g] = &cell
			}
		}
		if withSyntax[p.Pkg.Path()] && !initSkipped(p.Pkg.Path()) {
			shared = append(shared, p)
		}
	}
	sort.Slice(shared, func(a, b int) bool { return shared[a].Pkg.Path() < shared[b].Pkg.Path() })
	sort.Slice(w.perPathPkgs, func(a, b int) bool { return w.perPathPkgs[a].Pkg.Path() < w.perPathPkgs[b].Pkg.Path() })
	// run shared initialisers once
	boot := w.newInterpreter(&Config{MaxSteps: 1 << 40, MaxDepth: 1000}, nil)
	boot.initing = true
	for _, p := range shared {
		w.pkgInited[p] = true
	}
	var initErr error
	func() {
		defer func() {
			if r := recover(); r != nil {
				initErr = fmt.Errorf("shared package initialisation failed: %v", r)
			}
		}()
		for _, p := range shared {
			if f := p.Func("init"); f != nil && f.Blocks != nil {
				call(boot, nil, token.NoPos, f, nil)
			}
		}
	}()
	if initErr != nil {
		return nil, initErr
	}
	w.LoadTime = time.Since(t0)
	return w, nil
}

func (w *World) funcByName(pkg, name string) *ssa.Function {
	p := w.ssaPkgs[pkg]
	if p == nil {
		return nil
	}
	return p.Func(name)
}

// lookupQualified finds a function or method by its ssa String() name.
func (w *World) lookupQualified(name string) *ssa.Function {
	if f, ok := w.fnIndex[name]; ok {
		return f
	}
	// methods of types that come from export data are created on demand
	if strings.HasPrefix(name, "(") {
		close := strings.Index(name, ").")
		if close < 0 {
			return nil
		}
		recv, meth := name[1:close], name[close+2:]
		ptr := strings.HasPrefix(recv, "*")
		recv = strings.TrimPrefix(recv, "*")
		dot := strings.LastIndex(recv, ".")
		if dot < 0 {
			return nil
		}
		pkg := w.ssaPkgs[recv[:dot]]
		if pkg == nil {
			return nil
		}
		obj := pkg.Pkg.Scope().Lookup(recv[dot+1:])
		if obj == nil {
			return nil
		}
		var t types.Type = obj.Type()
		if ptr {
			t = types.NewPointer(t)
		}
		sel := w.Prog.MethodSets.MethodSet(t).Lookup(pkg.Pkg, meth)
		if sel == nil {
			return nil
		}
		return w.Prog.MethodValue(sel)
	}
	if dot := strings.LastIndex(name, "."); dot > 0 {
		if pkg := w.ssaPkgs[name[:dot]]; pkg != nil {
			return pkg.Func(name[dot+1:])
		}
	}
	return nil
}

func (w *World) BuildFnIndex() {
	for fn := range ssautil.AllFunctions(w.Prog) {
		w.fnIndex[fn.String()] = fn
	}
}

func (w *World) newInterpreter(cfg *Config, ps *pathState) *interpreter {
	i := &interpreter{
		w:        w,
		prog:     w.Prog,
		globals:  map[*ssa.Global]*value{},
		cfg:      cfg,
		ps:       ps,
		mutexes:  map[*value]*mutexState{},
		onces:    map[*value]*onceState{},
		wgs:      map[*value]*wgState{},
		funcs:    map[string]bool{},
		stubs:    map[string]int64{},
		overrides: map[*ssa.Function]*ssa.Function{},
		hstate:   map[string]value{},
		shadow:   map[*value]*shadowCell{},
	}
	if ps == nil {
		i.ps = &pathState{pool: newTermPool(), known: map[*Term]bool{}, reached: map[string]bool{}, covers: map[string]int{}, ghost: map[string]int64{}}
	}
	i.sched = newScheduler(i)
	return i
}

// runPath executes the harness once along the given decision prefix.
func (w *World) runPath(ex *Explorer, solver *Solver, prefix []Decision, model map[string]uint64) (pr *pathResult) {
	solver.Reset()
	ps := &pathState{
		ex: ex, pool: newTermPool(), solver: solver, prefix: prefix,
		known: map[*Term]bool{}, reached: map[string]bool{}, covers: map[string]int{}, ghost: map[string]int64{},
		harness: ex.cfg.Harness,
	}
	if model != nil {
		ps.initModel = model
		ps.ev = newEvaluator()
		ps.pool.onVar = func(t *Term) {
			if ps.ev != nil {
				if v, ok := ps.initModel[t.name]; ok {
					ps.ev.vars[t] = v
				}
			}
		}
	}
	i := w.newInterpreter(&ex.cfg, ps)
	pr = &pathResult{ps: ps, status: "ok"}
	hpkg := w.ssaPkgs[ex.cfg.HarnessPkg]
	if hpkg == nil {
		pr.status, pr.reason = "unsupported", "harness package not loaded: "+ex.cfg.HarnessPkg
		return
	}
	hfn := hpkg.Func(ex.cfg.Harness)
	if hfn == nil {
		pr.status, pr.reason = "unsupported", "harness function not found: "+ex.cfg.Harness
		return
	}
	// overrides
	for from, to := range ex.cfg.Overrides {
		f := w.lookupQualified(from)
		if f == nil {
			pr.status, pr.reason = "unsupported", "override source not found: "+from
			return
		}
		var t *ssa.Function
		if strings.Contains(to, ".") {
			t = w.lookupQualified(to)
		} else {
			t = hpkg.Func(to)
		}
		if t == nil {
			pr.status, pr.reason = "unsupported", "override target not found: "+to
			return
		}
		i.overrides[f] = t
	}
	// per-path globals
	for _, p := range w.perPathPkgs {
		for _, m := range p.Members {
			if g, ok := m.(*ssa.Global); ok {
				cell := zero(deref(g.Type()))
				i.globals[g] = &cell
			}
		}
	}
	defer func() {
		r := recover()
		if r != nil {
			switch r := r.(type) {
			case abortPath:
				switch r.status {
				case "deadlock":
					ps.event("deadlock", "deadlock: "+r.reason, "")
					pr.status = "stop"
				case "panic":
					ps.event("panic", r.reason, "")
					pr.status = "stop"
				case "budget":
					if ex.cfg.BudgetIsViolation {
						short := r.reason
						if k := strings.Index(short, " exceeded"); k >= 0 {
							short = short[:k] + " exceeded"
						}
						if len(ps.notes) < 64 {
							ps.notes = append(ps.notes, "budget: "+r.reason)
						}
						ps.event("budget", "does not terminate within the step/call-depth budget: "+short, "")
						pr.status = "stop"
					} else {
						pr.status, pr.reason = r.status, r.reason
					}
				default:
					pr.status, pr.reason = r.status, r.reason
				}
			case targetPanic:
				ps.event("panic", "panic: "+i.panicString(r.v), "")
				pr.status = "stop"
			case runtimeError:
				ps.event("panic", "panic: runtime error: "+string(r), "")
				pr.status = "stop"
			default:
				pr.status, pr.reason = "unsupported", fmt.Sprintf("interpreter crash: %v", r)
			}
		}
		if pr.status == "ok" {
			// vacuity / sample bookkeeping while the solver session is open
			if len(ps.inputs) > 0 && ex.wantSample() {
				if rr, m, _, _ := ps.model(); rr == resSat {
					ps.ghostSample = m
				}
			}
		}
		i.sched.killAll()
		pr.pending = ps.pending
		pr.pendingModels = ps.pendingModels
		pr.funcs = i.funcs
		pr.stubs = i.stubs
		pr.steps = i.steps
	}()
	i.initing = true
	for _, p := range w.perPathPkgs {
		if f := p.Func("init"); f != nil && f.Blocks != nil {
			call(i, nil, token.NoPos, f, nil)
		}
	}
	i.initing = false
	if os.Getenv("VERIF_TIMING") != "" && len(prefix) == 0 {
		fmt.Fprintf(os.Stderr, "per-path init: %d instructions\n", i.steps)
	}
	i.steps = 0
	call(i, nil, token.NoPos, hfn, nil)
	return
}

func (ex *Explorer) wantSample() bool {
	ex.mu.Lock()
	defer ex.mu.Unlock()
	return len(ex.res.Samples) < 5
}

// sentinel lazily gives well-known error variables of packages that are not
// interpreted (no initialiser run) a unique value.
func (w *World) sentinel(i *interpreter, g *ssa.Global, cell *value) bool {
	name := g.Pkg.Pkg.Path() + "." + g.Name()
	switch name {
	case "io.EOF", "io.ErrUnexpectedEOF", "database/sql.ErrNoRows", "database/sql.ErrTxDone",
		"context.Canceled", "context.DeadlineExceeded", "net/http.ErrBodyNotAllowed",
		"github.com/ory/x/sqlcon.ErrNoRows", "github.com/ory/x/sqlcon.ErrUniqueViolation", "github.com/ory/x/sqlcon.ErrConcurrentUpdate":
	default:
		return false
	}
	w.sentinelMu.Lock()
	defer w.sentinelMu.Unlock()
	if itf, ok := (*cell).(iface); ok && itf.t != nil {
		return true
	}
	ep := w.ssaPkgs["errors"]
	if ep == nil || ep.Type("errorString") == nil {
		return false
	}
	est := ep.Type("errorString").Type()
	var obj value = structure{name + " (sentinel)"}
	*cell = iface{t: types.NewPointer(est), v: &obj}
	return true
}
