package interp

// Path exploration by stateless re-execution: a path is a vector of
// decisions; the solver decides which sides of a symbolic branch are feasible
// under the path condition; alternatives are queued as decision prefixes.

import (
	"fmt"
	"os"
	"sort"
	"strings"
	"sync"
	"time"
)

const (
	dBranch = 'b' // solver-decided two-way branch (V: 1 = true side)
	dChoice = 'c' // non-solver fork (harness choice, scheduling, select resolution)
	dValue  = 'v' // concretisation of a symbolic scalar by solver enumeration
)

// Decision is one element of a path's decision vector.
type Decision struct {
	K    byte    `json:"k"`
	V    int64   `json:"v"`
	Excl []int64 `json:"excl,omitempty"` // dValue only: values already taken by sibling paths; V is then chosen afresh
	Open bool    `json:"open,omitempty"` // dValue only: V not yet chosen
}

// Input is a symbolic input created by the harness.
type Input struct {
	Name string
	Term *Term
	Kind string // "bool","int","int32","byte","str","choice"
	Sym  value
}

// Violation is a failed assertion / engine event on one path, with a model.
type Violation struct {
	Kind      string            `json:"kind"` // assert, panic, deadlock, leak, race, budget
	Msg       string            `json:"msg"`
	Tag       string            `json:"tag"`
	Inputs    map[string]string `json:"inputs"`
	Values    []int64           `json:"values"`    // input values in creation order (for native replay)
	InputSeq  []string          `json:"input_seq"` // names in creation order
	Decisions []Decision        `json:"decisions"`
	Where     string            `json:"where"`
	Harness   string            `json:"harness"`
	Notes     []string          `json:"notes,omitempty"`
	ReplayHarness string           `json:"replay_harness,omitempty"`
	ReplayParams  map[string]int64 `json:"replay_params,omitempty"`
}

type abortPath struct {
	status string // "infeasible", "unsupported", "budget", "assumed", "stop"
	reason string
}

func (a abortPath) String() string { return a.status + ": " + a.reason }

// pathState is the per-path symbolic state.
type pathState struct {
	ex      *Explorer
	pool    *termPool
	solver  *Solver
	prefix  []Decision
	pos     int
	trace   []Decision
	known   map[*Term]bool // terms asserted true
	pending [][]Decision
	inputs  []Input
	nSolverDecisions int
	nChoice          int
	notes   []string
	reached map[string]bool
	covers  map[string]int
	tag     string
	ghost   map[string]int64
	violations []Violation
	inconclusive []string
	nObligations, nDischarged int
	harness string
	unsatCore bool
	ghostSample map[string]string
	replayHarness string
	replayParams  map[string]int64
	ev         *evaluator        // current model of the path condition (nil = none)
	initModel  map[string]uint64 // model handed over with the prefix (by input name)
	pendingModels []map[string]uint64
}

// modelTerms returns the variables a model must cover.
func (ps *pathState) modelVars() []*Term {
	return ps.pool.vars
}

// adopt installs the solver's values for vars as the current model.
func (ps *pathState) adopt(vars []*Term, vals []uint64) {
	m := make(map[*Term]uint64, len(vars))
	for i, v := range vars {
		m[v] = vals[i]
	}
	if ps.ev == nil {
		ps.ev = newEvaluator()
	}
	ps.ev.reset(m)
}

func namedModel(vars []*Term, vals []uint64) map[string]uint64 {
	m := make(map[string]uint64, len(vars))
	for i, v := range vars {
		if vals[i] != 0 {
			m[v.name] = vals[i]
		}
	}
	return m
}

// holds reports whether the current model satisfies t (false if no model).
func (ps *pathState) holds(t *Term) bool {
	return ps.ev != nil && ps.ev.eval(t) != 0
}

func (ps *pathState) assertTerm(t *Term) {
	if t.isTrue() {
		return
	}
	if ps.known[t] {
		return
	}
	ps.known[t] = true
	if ps.ev != nil && ps.ev.eval(t) == 0 {
		ps.ev = nil // the model no longer satisfies the path condition
	}
	ps.solver.Assert(t)
}

func (ps *pathState) addPending(d []Decision, model map[string]uint64) {
	ps.pending = append(ps.pending, d)
	ps.pendingModels = append(ps.pendingModels, model)
}

func (ps *pathState) cloneTrace(extra Decision) []Decision {
	n := make([]Decision, len(ps.trace)+1)
	copy(n, ps.trace)
	n[len(ps.trace)] = extra
	return n
}

// branch decides a symbolic condition, forking when both sides are feasible.
func (ps *pathState) branch(c *Term) bool {
	if c.isConst() {
		return c.cval != 0
	}
	if ps.known[c] {
		return true
	}
	nc := ps.pool.Not(c)
	if ps.known[nc] {
		return false
	}
	if ps.pos < len(ps.prefix) {
		d := ps.prefix[ps.pos]
		ps.pos++
		if d.K != dBranch {
			panic(abortPath{"unsupported", fmt.Sprintf("replay divergence: expected decision kind %c, got branch", d.K)})
		}
		ps.trace = append(ps.trace, d)
		if d.V == 1 {
			ps.assertTerm(c)
			return true
		}
		ps.assertTerm(nc)
		return false
	}
	ps.nSolverDecisions++
	vars := ps.modelVars()
	if ps.ev != nil {
		// the current model decides one side for free; one query for the other
		side := ps.ev.eval(c) != 0
		other := nc
		if !side {
			other = c
		}
		r, vals := ps.solver.CheckModel([]*Term{other}, vars)
		if r == resUnknown {
			ps.inconclusive = append(ps.inconclusive, "solver unknown on branch feasibility: "+ps.solver.lastErr)
		}
		if r != resUnsat {
			var nm map[string]uint64
			if r == resSat {
				nm = namedModel(vars, vals)
			}
			v := int64(1)
			if side {
				v = 0
			}
			ps.addPending(ps.cloneTrace(Decision{K: dBranch, V: v}), nm)
		}
		if side {
			ps.trace = append(ps.trace, Decision{K: dBranch, V: 1})
			ps.assertTerm(c)
			return true
		}
		ps.trace = append(ps.trace, Decision{K: dBranch, V: 0})
		ps.assertTerm(nc)
		return false
	}
	rT, valsT := ps.solver.CheckModel([]*Term{c}, vars)
	var rF satResult
	var valsF []uint64
	if rT == resUnsat {
		// the path condition itself is satisfiable (invariant), so !c is feasible
		rF = resSat
	} else {
		rF, valsF = ps.solver.CheckModel([]*Term{nc}, vars)
	}
	if rT == resUnknown || rF == resUnknown {
		ps.inconclusive = append(ps.inconclusive, "solver unknown on branch feasibility: "+ps.solver.lastErr)
	}
	switch {
	case rT != resUnsat && rF != resUnsat:
		var nm map[string]uint64
		if rF == resSat && valsF != nil {
			nm = namedModel(vars, valsF)
		}
		ps.addPending(ps.cloneTrace(Decision{K: dBranch, V: 0}), nm)
		ps.trace = append(ps.trace, Decision{K: dBranch, V: 1})
		if rT == resSat {
			ps.adopt(vars, valsT)
		}
		ps.assertTerm(c)
		return true
	case rT != resUnsat:
		ps.trace = append(ps.trace, Decision{K: dBranch, V: 1})
		if rT == resSat {
			ps.adopt(vars, valsT)
		}
		ps.assertTerm(c)
		return true
	case rF != resUnsat:
		ps.trace = append(ps.trace, Decision{K: dBranch, V: 0})
		ps.assertTerm(nc)
		return false
	}
	panic(abortPath{"infeasible", "both sides of a branch infeasible"})
}

// choose forks n ways without consulting the solver.
func (ps *pathState) choose(n int, what string) int {
	if n <= 1 {
		return 0
	}
	if ps.pos < len(ps.prefix) {
		d := ps.prefix[ps.pos]
		ps.pos++
		if d.K != dChoice {
			panic(abortPath{"unsupported", fmt.Sprintf("replay divergence: expected decision kind %c, got choice(%s)", d.K, what)})
		}
		ps.trace = append(ps.trace, d)
		if int(d.V) >= n {
			panic(abortPath{"unsupported", "replay divergence: choice out of range"})
		}
		return int(d.V)
	}
	ps.nChoice++
	for k := n - 1; k >= 1; k-- {
		ps.addPending(ps.cloneTrace(Decision{K: dChoice, V: int64(k)}), nil)
	}
	ps.trace = append(ps.trace, Decision{K: dChoice, V: 0})
	return 0
}

// concretize enumerates the feasible values of t (one per path).
func (ps *pathState) concretize(t *Term, what string) uint64 {
	if t.isConst() {
		return t.cval
	}
	var excl []int64
	if ps.pos < len(ps.prefix) {
		d := ps.prefix[ps.pos]
		ps.pos++
		if d.K != dValue {
			panic(abortPath{"unsupported", fmt.Sprintf("replay divergence: expected decision kind %c, got value(%s)", d.K, what)})
		}
		if !d.Open {
			ps.trace = append(ps.trace, d)
			ps.assertTerm(ps.pool.Eq(t, ps.constLike(t, uint64(d.V))))
			return uint64(d.V)
		}
		excl = d.Excl
	}
	if len(excl) >= ps.ex.cfg.MaxEnum {
		panic(abortPath{"budget", fmt.Sprintf("more than %d values while concretising %s (term %s; values %v)", ps.ex.cfg.MaxEnum, what, t.String(), excl[:8])})
	}
	var extra []*Term
	for _, e := range excl {
		extra = append(extra, ps.pool.Not(ps.pool.Eq(t, ps.constLike(t, uint64(e)))))
	}
	ps.nSolverDecisions++
	var v int64
	if ps.ev != nil && len(excl) == 0 {
		// the current model already names a feasible value
		v = int64(ps.ev.eval(t))
	} else {
		vars := ps.modelVars()
		r, vals := ps.solver.CheckModel(extra, append([]*Term{t}, vars...))
		switch r {
		case resUnsat:
			panic(abortPath{"infeasible", "no further value"})
		case resUnknown:
			ps.inconclusive = append(ps.inconclusive, "solver unknown while concretising "+what)
			panic(abortPath{"unsupported", "solver unknown while concretising " + what})
		}
		v = int64(vals[0])
		ps.adopt(vars, vals[1:])
	}
	nexcl := append(append([]int64{}, excl...), v)
	// look ahead: queue the sibling only if another value exists
	extra = append(extra, ps.pool.Not(ps.pool.Eq(t, ps.constLike(t, uint64(v)))))
	if ps.solver.CheckWith(extra...) != resUnsat {
		ps.addPending(ps.cloneTrace(Decision{K: dValue, Open: true, Excl: nexcl}), nil)
	}
	ps.trace = append(ps.trace, Decision{K: dValue, V: v})
	ps.assertTerm(ps.pool.Eq(t, ps.constLike(t, uint64(v))))
	return uint64(v)
}

func (ps *pathState) constLike(t *Term, v uint64) *Term {
	switch t.sort {
	case sBool:
		return ps.pool.Bool(v != 0)
	case sStr:
		return ps.pool.mk("const", sStr, v, "")
	}
	return ps.pool.BV(t.sort.bits(), v)
}

// model returns the values of all inputs under the path condition plus extra.
func (ps *pathState) model(extra ...*Term) (satResult, map[string]string, []int64, []string) {
	var want []*Term
	for _, in := range ps.inputs {
		want = append(want, in.Term)
	}
	r, vals := ps.solver.CheckModel(extra, want)
	if r != resSat {
		return r, nil, nil, nil
	}
	m := make(map[string]string)
	var seq []int64
	var names []string
	for i, in := range ps.inputs {
		v := vals[i]
		names = append(names, in.Name)
		switch in.Term.sort {
		case sBool:
			m[in.Name] = fmt.Sprint(v != 0)
			seq = append(seq, int64(v))
		case sStr:
			m[in.Name] = ps.strName(v)
			seq = append(seq, int64(v))
		default:
			bits := in.Term.sort.bits()
			if in.Kind == "byte" || in.Kind == "uint" {
				m[in.Name] = fmt.Sprint(v)
				seq = append(seq, int64(v))
			} else {
				m[in.Name] = fmt.Sprint(signExt(v, bits))
				seq = append(seq, signExt(v, bits))
			}
		}
	}
	return r, m, seq, names
}

func (ps *pathState) strName(id uint64) string {
	if id >= 1 && int(id) <= len(ps.pool.strsR) {
		return fmt.Sprintf("%q", ps.pool.strsR[id-1])
	}
	return fmt.Sprintf("<fresh-string-%d>", int64(id))
}

// check is the assertion primitive: cond must hold on every continuation of
// the current path. Returns after recording a violation (and assuming cond).
func (ps *pathState) check(cond *Term, kind, msg, where string) {
	ps.nObligations++
	if cond.isTrue() || ps.known[cond] {
		ps.nDischarged++
		return
	}
	nc := ps.pool.Not(cond)
	r, m, seq, names := ps.model(nc)
	switch r {
	case resUnsat:
		ps.nDischarged++
		ps.known[cond] = true
		return
	case resUnknown:
		ps.inconclusive = append(ps.inconclusive, "solver unknown on assertion "+msg+": "+ps.solver.lastErr)
		return
	}
	ps.violations = append(ps.violations, Violation{
		Kind: kind, Msg: msg, Tag: ps.tag, Inputs: m, Values: seq, InputSeq: names,
		Decisions: append([]Decision{}, ps.trace...), Where: where, Harness: ps.harness,
		Notes: append([]string{}, ps.notes...), ReplayHarness: ps.replayHarness, ReplayParams: ps.replayParams,
	})
	// continue on the side where the assertion holds, if any
	if ps.solver.CheckWith(cond) == resUnsat {
		panic(abortPath{"stop", "assertion fails on the whole path"})
	}
	ps.assertTerm(cond)
}

// event records a violation that holds on the whole current path.
func (ps *pathState) event(kind, msg, where string) {
	ps.nObligations++
	r, m, seq, names := ps.model()
	if r != resSat {
		if r == resUnknown {
			ps.inconclusive = append(ps.inconclusive, "solver unknown on event model: "+msg)
		}
		m = map[string]string{}
	}
	ps.violations = append(ps.violations, Violation{
		Kind: kind, Msg: msg, Tag: ps.tag, Inputs: m, Values: seq, InputSeq: names,
		Decisions: append([]Decision{}, ps.trace...), Where: where, Harness: ps.harness,
		Notes: append([]string{}, ps.notes...), ReplayHarness: ps.replayHarness, ReplayParams: ps.replayParams,
	})
}

// ---------------------------------------------------------------------------

// Config of one exploration run.
type Config struct {
	Harness    string // name of the entry function (in HarnessPkg)
	HarnessPkg string
	Params     map[string]int64 // read by verifParam(name)
	Overrides  map[string]string // qualified function -> harness function name (same package as harness unless qualified)
	MaxSteps   int64
	MaxDepth   int
	MaxEnum    int
	MaxPaths   int64
	DelayBound int
	SchedLIFO  bool
	Workers    int
	SolverBin  string
	SolverTimeoutMs int
	Race       bool
	MapOrderFork bool // every iteration order of a map with 2..3 entries is a separate path (code outside harness files)
	Deadline   time.Time
	Trace      bool
	StopAfterViolations int
	ReplayDecisions []Decision // if set: run exactly this path
	BudgetIsViolation bool     // termination properties: exceeding the step/depth budget is the violation
	IsKnown           func(Violation) bool // recorded findings (do not count towards StopAfterNew)
	StopAfterNew      int                  // stop exploring after this many violations that are not recorded findings
}

// Result of one exploration run.
type Result struct {
	Paths        int64
	Completed    int64
	Infeasible   int64
	Assumed      int64
	Decisions    int64
	Choices      int64
	Queries      int64
	SolverTime   time.Duration
	Obligations  int64
	Discharged   int64
	Violations   []Violation
	Unsupported  map[string]int64
	Inconclusive map[string]int64
	Budget       map[string]int64
	Reached      map[string]int64
	Covers       map[string]int64
	Functions    map[string]bool
	Stubs        map[string]int64
	Exhaustive   bool
	Samples      []map[string]string
	Wall         time.Duration
	MaxTrace     int
	Steps        int64
	chains       map[string]string
	ViolationCounts map[string]int64 // per kind|msg|tag (only the first 3 of each are kept in Violations)
	TotalViolations int64
	NewViolations   int64 // violations not matching a recorded finding
}

type queued struct {
	dec   []Decision
	model map[string]uint64
}

type Explorer struct {
	cfg   Config
	world *World
	mu    sync.Mutex
	cond  *sync.Cond
	queue []queued
	active int
	res   Result
	stop  bool
}

func (w *World) Explore(cfg Config) *Result {
	if cfg.MaxSteps == 0 {
		cfg.MaxSteps = 3_000_000
	}
	if cfg.MaxDepth == 0 {
		cfg.MaxDepth = 400
	}
	if cfg.MaxEnum == 0 {
		cfg.MaxEnum = 64
	}
	if cfg.Workers == 0 {
		cfg.Workers = 1
	}
	if cfg.SolverBin == "" {
		cfg.SolverBin = "z3"
	}
	if cfg.SolverTimeoutMs == 0 {
		cfg.SolverTimeoutMs = 30000
	}
	ex := &Explorer{cfg: cfg, world: w}
	ex.cond = sync.NewCond(&ex.mu)
	ex.res.Unsupported = map[string]int64{}
	ex.res.Inconclusive = map[string]int64{}
	ex.res.Budget = map[string]int64{}
	ex.res.Reached = map[string]int64{}
	ex.res.Covers = map[string]int64{}
	ex.res.Functions = map[string]bool{}
	ex.res.Stubs = map[string]int64{}
	t0 := time.Now()
	if cfg.ReplayDecisions != nil {
		ex.queue = []queued{{dec: cfg.ReplayDecisions}}
	} else {
		ex.queue = []queued{{}}
	}
	stopProgress := make(chan struct{})
	if os.Getenv("VERIF_PROGRESS") != "" {
		go func() {
			tk := time.NewTicker(10 * time.Second)
			defer tk.Stop()
			for {
				select {
				case <-stopProgress:
					return
				case <-tk.C:
					ex.mu.Lock()
					fmt.Fprintf(os.Stderr, "  progress: paths=%d queued=%d violations=%d unsupported=%d t=%.0fs\n", ex.res.Paths, len(ex.queue), len(ex.res.Violations), len(ex.res.Unsupported), time.Since(t0).Seconds())
					ex.mu.Unlock()
				}
			}
		}()
	}
	var wg sync.WaitGroup
	for k := 0; k < cfg.Workers; k++ {
		wg.Add(1)
		go func(k int) {
			defer wg.Done()
			ex.worker(k)
		}(k)
	}
	wg.Wait()
	close(stopProgress)
	ex.res.Wall = time.Since(t0)
	ex.res.Exhaustive = !ex.stop && len(ex.queue) == 0 && len(ex.res.Unsupported) == 0 && len(ex.res.Budget) == 0 && len(ex.res.Inconclusive) == 0
	return &ex.res
}

func (ex *Explorer) worker(k int) {
	solver, err := NewSolver(ex.cfg.SolverBin, ex.cfg.SolverTimeoutMs)
	if err != nil {
		ex.mu.Lock()
		ex.res.Unsupported["cannot start solver: "+err.Error()]++
		ex.stop = true
		ex.cond.Broadcast()
		ex.mu.Unlock()
		return
	}
	defer solver.Close()
	for {
		ex.mu.Lock()
		for len(ex.queue) == 0 && ex.active > 0 && !ex.stop {
			ex.cond.Wait()
		}
		if ex.stop || len(ex.queue) == 0 {
			ex.cond.Broadcast()
			ex.mu.Unlock()
			break
		}
		prefix := ex.queue[len(ex.queue)-1]
		ex.queue = ex.queue[:len(ex.queue)-1]
		ex.active++
		ex.mu.Unlock()

		pr := ex.world.runPath(ex, solver, prefix.dec, prefix.model)

		ex.mu.Lock()
		ex.active--
		ex.merge(pr)
		if ex.cfg.ReplayDecisions == nil {
			for k, d := range pr.pending {
				var m map[string]uint64
				if k < len(pr.pendingModels) {
					m = pr.pendingModels[k]
				}
				ex.queue = append(ex.queue, queued{dec: d, model: m})
			}
		}
		if ex.cfg.MaxPaths > 0 && ex.res.Paths >= ex.cfg.MaxPaths && len(ex.queue) > 0 {
			ex.res.Budget[fmt.Sprintf("path budget %d reached with %d prefixes queued", ex.cfg.MaxPaths, len(ex.queue))]++
			ex.stop = true
		}
		if !ex.cfg.Deadline.IsZero() && time.Now().After(ex.cfg.Deadline) && len(ex.queue) > 0 {
			ex.res.Budget[fmt.Sprintf("time budget reached with %d prefixes queued", len(ex.queue))]++
			ex.stop = true
		}
		if !ex.stop && ex.cfg.StopAfterNew > 0 && ex.res.NewViolations >= int64(ex.cfg.StopAfterNew) && len(ex.queue) > 0 {
			ex.res.Budget[fmt.Sprintf("stopped after %d violations that are not recorded findings (%d prefixes unexplored)", ex.res.NewViolations, len(ex.queue))]++
			ex.stop = true
		}
		if ex.cfg.StopAfterViolations > 0 && ex.res.TotalViolations >= int64(ex.cfg.StopAfterViolations) {
			ex.stop = true
		}
		ex.cond.Broadcast()
		ex.mu.Unlock()
	}
	ex.mu.Lock()
	ex.res.Queries += int64(solver.Queries)
	ex.res.SolverTime += solver.Time
	if solver.Errors > 0 {
		ex.res.Inconclusive[fmt.Sprintf("solver reported errors (last: %s)", solver.lastErr)] += int64(solver.Errors)
	}
	ex.mu.Unlock()
}

type pathResult struct {
	status  string
	reason  string
	ps      *pathState
	pending [][]Decision
	pendingModels []map[string]uint64
	funcs   map[string]bool
	stubs   map[string]int64
	steps   int64
}

func (ex *Explorer) merge(pr *pathResult) {
	r := &ex.res
	r.Paths++
	ps := pr.ps
	r.Decisions += int64(ps.nSolverDecisions)
	r.Choices += int64(ps.nChoice)
	r.Obligations += int64(ps.nObligations)
	r.Discharged += int64(ps.nDischarged)
	r.Steps += pr.steps
	if len(ps.trace) > r.MaxTrace {
		r.MaxTrace = len(ps.trace)
	}
	for f := range pr.funcs {
		r.Functions[f] = true
	}
	for s, n := range pr.stubs {
		r.Stubs[s] += n
	}
	for _, s := range ps.inconclusive {
		r.Inconclusive[s]++
	}
	switch pr.status {
	case "ok", "stop":
		r.Completed++
		for t := range ps.reached {
			r.Reached[t]++
		}
		for t, n := range ps.covers {
			r.Covers[t] += int64(n)
		}
		if len(r.Samples) < 5 && len(ps.inputs) > 0 && len(ps.violations) == 0 && pr.status == "ok" {
			if rr, m, _, _ := ps.modelNoSolver(); rr {
				r.Samples = append(r.Samples, m)
			}
		}
	case "infeasible":
		r.Infeasible++
	case "assumed":
		r.Assumed++
	case "unsupported":
		r.Unsupported[r.dedupe(pr.reason)]++
	case "budget":
		r.Budget[r.dedupe(pr.reason)]++
	default:
		r.Unsupported["unknown path status "+pr.status+": "+pr.reason]++
	}
	for _, v := range ps.violations {
		k := v.Kind + "|" + v.Msg + "|" + v.Tag
		if r.ViolationCounts == nil {
			r.ViolationCounts = map[string]int64{}
		}
		r.ViolationCounts[k]++
		r.TotalViolations++
		if ex.cfg.IsKnown == nil || !ex.cfg.IsKnown(v) {
			r.NewViolations++
		}
		if r.ViolationCounts[k] <= 3 {
			r.Violations = append(r.Violations, v)
		}
	}
}

// modelNoSolver is filled by runPath at the end of a completed path (the
// solver session is still open then); merge only reads the cached copy.
func (ps *pathState) modelNoSolver() (bool, map[string]string, []int64, []string) {
	if ps.ghostSample == nil {
		return false, nil, nil, nil
	}
	return true, ps.ghostSample, nil, nil
}

// dedupe keeps one call chain per distinct reason.
func (r *Result) dedupe(reason string) string {
	head := reason
	if k := strings.Index(reason, " [in "); k >= 0 {
		head = reason[:k]
	}
	if r.chains == nil {
		r.chains = map[string]string{}
	}
	if full, ok := r.chains[head]; ok {
		return full
	}
	r.chains[head] = reason
	return reason
}

func sortedKeys[V any](m map[string]V) []string {
	var ks []string
	for k := range m {
		ks = append(ks, k)
	}
	sort.Strings(ks)
	return ks
}

func (r *Result) Summary() string {
	var sb strings.Builder
	fmt.Fprintf(&sb, "paths=%d completed=%d infeasible=%d assumed-away=%d solver-decisions=%d choices=%d queries=%d solver=%.1fs obligations=%d discharged=%d violations=%d wall=%.1fs exhaustive=%v instr=%d",
		r.Paths, r.Completed, r.Infeasible, r.Assumed, r.Decisions, r.Choices, r.Queries, r.SolverTime.Seconds(), r.Obligations, r.Discharged, r.TotalViolations, r.Wall.Seconds(), r.Exhaustive, r.Steps)
	for _, k := range sortedKeys(r.Unsupported) {
		fmt.Fprintf(&sb, "\n  UNSUPPORTED x%d: %s", r.Unsupported[k], k)
	}
	for _, k := range sortedKeys(r.Budget) {
		fmt.Fprintf(&sb, "\n  BUDGET x%d: %s", r.Budget[k], k)
	}
	for _, k := range sortedKeys(r.Inconclusive) {
		fmt.Fprintf(&sb, "\n  INCONCLUSIVE x%d: %s", r.Inconclusive[k], k)
	}
	return sb.String()
}
