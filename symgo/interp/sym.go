package interp

// Symbolic terms (hash-consed SMT-LIB2 DAG) and the symbolic value kinds that
// live next to the concrete boxed values of the interpreter.

import (
	"fmt"
	"go/types"
	"strconv"
	"strings"
)

type sortKind uint8

const (
	sBool sortKind = iota
	sBV8
	sBV16
	sBV32
	sBV64
	sStr // opaque strings: only equality; encoded as Int
)

func (s sortKind) bits() int {
	switch s {
	case sBV8:
		return 8
	case sBV16:
		return 16
	case sBV32:
		return 32
	case sBV64:
		return 64
	}
	return 0
}

func (s sortKind) smt() string {
	switch s {
	case sBool:
		return "Bool"
	case sStr:
		return "Int"
	}
	return fmt.Sprintf("(_ BitVec %d)", s.bits())
}

func bvSort(bits int) sortKind {
	switch bits {
	case 8:
		return sBV8
	case 16:
		return sBV16
	case 32:
		return sBV32
	case 64:
		return sBV64
	}
	panic(fmt.Sprintf("bvSort(%d)", bits))
}

// Term is a node of the term DAG. Terms are created through a *termPool, which
// hash-conses them, so pointer equality is structural equality.
type Term struct {
	op    string // "const", "var", or an SMT operator / indexed operator
	args  []*Term
	sort  sortKind
	cval  uint64 // for op == "const" (bool: 0/1; bv: value masked; str: interned id)
	name  string // for op == "var"
	id    int
	defd  bool // define-fun emitted to the current solver session
	depth int
}

func (t *Term) isConst() bool { return t.op == "const" }
func (t *Term) isTrue() bool  { return t.op == "const" && t.sort == sBool && t.cval == 1 }
func (t *Term) isFalse() bool { return t.op == "const" && t.sort == sBool && t.cval == 0 }

type termPool struct {
	tab   map[string]*Term
	next  int
	vars  []*Term
	strs  map[string]uint64 // interned concrete strings for the opaque-string sort
	strsR []string
	onVar func(*Term)
}

func newTermPool() *termPool {
	return &termPool{tab: make(map[string]*Term), strs: make(map[string]uint64)}
}

func (p *termPool) mk(op string, sort sortKind, cval uint64, name string, args ...*Term) *Term {
	var sb strings.Builder
	sb.WriteString(op)
	sb.WriteByte('|')
	sb.WriteByte(byte('0' + sort))
	sb.WriteByte('|')
	if op == "const" {
		sb.WriteString(strconv.FormatUint(cval, 16))
	} else if op == "var" {
		sb.WriteString(name)
	}
	for _, a := range args {
		sb.WriteByte(',')
		sb.WriteString(strconv.Itoa(a.id))
	}
	k := sb.String()
	if t, ok := p.tab[k]; ok {
		return t
	}
	d := 0
	for _, a := range args {
		if a.depth+1 > d {
			d = a.depth + 1
		}
	}
	t := &Term{op: op, args: args, sort: sort, cval: cval, name: name, id: p.next, depth: d}
	p.next++
	p.tab[k] = t
	if op == "var" {
		p.vars = append(p.vars, t)
		if p.onVar != nil {
			p.onVar(t)
		}
	}
	return t
}

func mask(bits int) uint64 {
	if bits == 64 {
		return ^uint64(0)
	}
	return (uint64(1) << uint(bits)) - 1
}

func (p *termPool) Bool(b bool) *Term {
	if b {
		return p.mk("const", sBool, 1, "")
	}
	return p.mk("const", sBool, 0, "")
}

func (p *termPool) BV(bits int, v uint64) *Term {
	return p.mk("const", bvSort(bits), v&mask(bits), "")
}

func (p *termPool) StrConst(s string) *Term {
	id, ok := p.strs[s]
	if !ok {
		id = uint64(len(p.strsR) + 1)
		p.strs[s] = id
		p.strsR = append(p.strsR, s)
	}
	return p.mk("const", sStr, id, "")
}

func (p *termPool) Var(name string, sort sortKind) *Term {
	return p.mk("var", sort, 0, name)
}

func signExt(v uint64, bits int) int64 {
	if bits == 64 {
		return int64(v)
	}
	if v&(1<<uint(bits-1)) != 0 {
		return int64(v | ^mask(bits))
	}
	return int64(v)
}

func (p *termPool) Not(a *Term) *Term {
	if a.isConst() {
		return p.Bool(a.cval == 0)
	}
	if a.op == "not" {
		return a.args[0]
	}
	return p.mk("not", sBool, 0, "", a)
}

func (p *termPool) And(a, b *Term) *Term {
	if a.isFalse() || b.isFalse() {
		return p.Bool(false)
	}
	if a.isTrue() {
		return b
	}
	if b.isTrue() {
		return a
	}
	if a == b {
		return a
	}
	return p.mk("and", sBool, 0, "", a, b)
}

func (p *termPool) Or(a, b *Term) *Term {
	if a.isTrue() || b.isTrue() {
		return p.Bool(true)
	}
	if a.isFalse() {
		return b
	}
	if b.isFalse() {
		return a
	}
	if a == b {
		return a
	}
	return p.mk("or", sBool, 0, "", a, b)
}

func (p *termPool) Implies(a, b *Term) *Term { return p.Or(p.Not(a), b) }

func (p *termPool) Ite(c, a, b *Term) *Term {
	if c.isTrue() {
		return a
	}
	if c.isFalse() {
		return b
	}
	if a == b {
		return a
	}
	if a.sort == sBool {
		if a.isTrue() && b.isFalse() {
			return c
		}
		if a.isFalse() && b.isTrue() {
			return p.Not(c)
		}
	}
	return p.mk("ite", a.sort, 0, "", c, a, b)
}

func (p *termPool) Eq(a, b *Term) *Term {
	if a.sort != b.sort {
		panic(fmt.Sprintf("Eq: sort mismatch %v %v", a.sort, b.sort))
	}
	if a == b {
		return p.Bool(true)
	}
	if a.isConst() && b.isConst() {
		return p.Bool(a.cval == b.cval)
	}
	if a.sort == sBool {
		if a.isConst() {
			a, b = b, a
		}
		if b.isTrue() {
			return a
		}
		if b.isFalse() {
			return p.Not(a)
		}
	}
	// ite(c, k1, k2) == k  with constants folds to c / !c / false
	if b.isConst() && a.op == "ite" && a.args[1].isConst() && a.args[2].isConst() {
		e1 := a.args[1].cval == b.cval
		e2 := a.args[2].cval == b.cval
		switch {
		case e1 && e2:
			return p.Bool(true)
		case e1:
			return a.args[0]
		case e2:
			return p.Not(a.args[0])
		default:
			return p.Bool(false)
		}
	}
	if a.id > b.id {
		a, b = b, a
	}
	return p.mk("=", sBool, 0, "", a, b)
}

// BinBV builds a bit-vector operation with constant folding.
// op is one of bvadd bvsub bvmul bvudiv bvsdiv bvurem bvsrem bvand bvor bvxor
// bvshl bvlshr bvashr.
func (p *termPool) BinBV(op string, a, b *Term) *Term {
	if a.sort != b.sort {
		panic(fmt.Sprintf("BinBV %s: sort mismatch %v %v", op, a.sort, b.sort))
	}
	bits := a.sort.bits()
	if a.isConst() && b.isConst() {
		x, y := a.cval, b.cval
		var r uint64
		ok := true
		switch op {
		case "bvadd":
			r = x + y
		case "bvsub":
			r = x - y
		case "bvmul":
			r = x * y
		case "bvand":
			r = x & y
		case "bvor":
			r = x | y
		case "bvxor":
			r = x ^ y
		case "bvshl":
			if y >= uint64(bits) {
				r = 0
			} else {
				r = x << y
			}
		case "bvlshr":
			if y >= uint64(bits) {
				r = 0
			} else {
				r = x >> y
			}
		case "bvashr":
			sx := signExt(x, bits)
			if y >= uint64(bits) {
				if sx < 0 {
					r = ^uint64(0)
				} else {
					r = 0
				}
			} else {
				r = uint64(sx >> y)
			}
		case "bvudiv":
			if y == 0 {
				ok = false
			} else {
				r = x / y
			}
		case "bvurem":
			if y == 0 {
				ok = false
			} else {
				r = x % y
			}
		case "bvsdiv":
			if y == 0 {
				ok = false
			} else {
				sx, sy := signExt(x, bits), signExt(y, bits)
				if sy == -1 {
					r = uint64(-sx)
				} else {
					r = uint64(sx / sy)
				}
			}
		case "bvsrem":
			if y == 0 {
				ok = false
			} else {
				sx, sy := signExt(x, bits), signExt(y, bits)
				if sy == -1 {
					r = 0
				} else {
					r = uint64(sx % sy)
				}
			}
		default:
			ok = false
		}
		if ok {
			return p.BV(bits, r)
		}
	}
	// light identities
	switch op {
	case "bvadd", "bvor", "bvxor":
		if a.isConst() && a.cval == 0 {
			return b
		}
		if b.isConst() && b.cval == 0 {
			return a
		}
	case "bvsub", "bvshl", "bvlshr", "bvashr":
		if b.isConst() && b.cval == 0 {
			return a
		}
	case "bvand":
		if a.isConst() && a.cval == 0 {
			return a
		}
		if b.isConst() && b.cval == 0 {
			return b
		}
		if b.isConst() && b.cval == mask(bits) {
			return a
		}
		if a.isConst() && a.cval == mask(bits) {
			return b
		}
	case "bvmul":
		if a.isConst() && a.cval == 1 {
			return b
		}
		if b.isConst() && b.cval == 1 {
			return a
		}
	}
	return p.mk(op, a.sort, 0, "", a, b)
}

// CmpBV builds a comparison (bvult bvule bvslt bvsle).
func (p *termPool) CmpBV(op string, a, b *Term) *Term {
	if a.sort != b.sort {
		panic(fmt.Sprintf("CmpBV %s: sort mismatch", op))
	}
	bits := a.sort.bits()
	if a.isConst() && b.isConst() {
		switch op {
		case "bvult":
			return p.Bool(a.cval < b.cval)
		case "bvule":
			return p.Bool(a.cval <= b.cval)
		case "bvslt":
			return p.Bool(signExt(a.cval, bits) < signExt(b.cval, bits))
		case "bvsle":
			return p.Bool(signExt(a.cval, bits) <= signExt(b.cval, bits))
		}
	}
	if a == b {
		return p.Bool(op == "bvule" || op == "bvsle")
	}
	return p.mk(op, sBool, 0, "", a, b)
}

func (p *termPool) NegBV(a *Term) *Term {
	if a.isConst() {
		return p.BV(a.sort.bits(), -a.cval)
	}
	return p.mk("bvneg", a.sort, 0, "", a)
}

func (p *termPool) NotBV(a *Term) *Term {
	if a.isConst() {
		return p.BV(a.sort.bits(), ^a.cval)
	}
	return p.mk("bvnot", a.sort, 0, "", a)
}

// Resize converts a bit-vector to another width (truncate / sign- or
// zero-extend according to the signedness of the source).
func (p *termPool) Resize(a *Term, srcSigned bool, bits int) *Term {
	sb := a.sort.bits()
	if sb == bits {
		return a
	}
	if a.isConst() {
		if srcSigned {
			return p.BV(bits, uint64(signExt(a.cval, sb)))
		}
		return p.BV(bits, a.cval)
	}
	if bits < sb {
		return p.mk(fmt.Sprintf("(_ extract %d 0)", bits-1), bvSort(bits), 0, "", a)
	}
	if srcSigned {
		return p.mk(fmt.Sprintf("(_ sign_extend %d)", bits-sb), bvSort(bits), 0, "", a)
	}
	return p.mk(fmt.Sprintf("(_ zero_extend %d)", bits-sb), bvSort(bits), 0, "", a)
}

// smtHead prints the head of a term given already-printed argument names.
func (t *Term) smtBody(ref func(*Term) string) string {
	switch t.op {
	case "const":
		switch t.sort {
		case sBool:
			if t.cval == 1 {
				return "true"
			}
			return "false"
		case sStr:
			return strconv.FormatUint(t.cval, 10)
		default:
			bits := t.sort.bits()
			return fmt.Sprintf("#x%0*x", bits/4, t.cval)
		}
	case "var":
		return t.name
	}
	var sb strings.Builder
	sb.WriteByte('(')
	sb.WriteString(t.op)
	for _, a := range t.args {
		sb.WriteByte(' ')
		sb.WriteString(ref(a))
	}
	sb.WriteByte(')')
	return sb.String()
}

// String renders the term fully inlined (for samples / debugging; may be big).
func (t *Term) String() string {
	if t.depth > 12 {
		return fmt.Sprintf("<term#%d depth %d>", t.id, t.depth)
	}
	return t.smtBody(func(a *Term) string { return a.String() })
}

// ---------------------------------------------------------------------------
// Symbolic values

// Sym is a symbolic scalar (bool or integer) with the Go basic kind it stands for.
type Sym struct {
	t *Term
	k types.BasicKind
}

// sstring is a string of concrete length whose bytes may be symbolic
// (each element is a uint8 or a *Sym of kind Uint8).
type sstring struct {
	b []value
}

// ostring is an opaque symbolic string of unknown length and content; only
// copying and (in)equality are supported.
type ostring struct {
	t *Term
}

func kindSigned(k types.BasicKind) bool {
	switch k {
	case types.Int, types.Int8, types.Int16, types.Int32, types.Int64:
		return true
	}
	return false
}

func kindBits(k types.BasicKind) int {
	switch k {
	case types.Int8, types.Uint8:
		return 8
	case types.Int16, types.Uint16:
		return 16
	case types.Int32, types.Uint32:
		return 32
	case types.Int, types.Uint, types.Int64, types.Uint64, types.Uintptr:
		return 64
	}
	return 0
}

func basicKindOf(t types.Type) (types.BasicKind, bool) {
	b, ok := t.Underlying().(*types.Basic)
	if !ok {
		return 0, false
	}
	k := b.Kind()
	switch k {
	case types.UntypedBool:
		k = types.Bool
	case types.UntypedInt:
		k = types.Int
	case types.UntypedRune:
		k = types.Int32
	}
	return k, true
}

// concreteOfKind boxes v (bits already masked / sign-correct) as the Go value
// of kind k.
func concreteOfKind(k types.BasicKind, v uint64) value {
	switch k {
	case types.Bool:
		return v != 0
	case types.Int:
		return int(v)
	case types.Int8:
		return int8(v)
	case types.Int16:
		return int16(v)
	case types.Int32:
		return int32(v)
	case types.Int64:
		return int64(v)
	case types.Uint:
		return uint(v)
	case types.Uint8:
		return uint8(v)
	case types.Uint16:
		return uint16(v)
	case types.Uint32:
		return uint32(v)
	case types.Uint64:
		return uint64(v)
	case types.Uintptr:
		return uintptr(v)
	}
	panic(fmt.Sprintf("concreteOfKind: kind %v", k))
}

// kindOfValue returns the basic kind of a concrete scalar value.
func kindOfValue(x value) (types.BasicKind, bool) {
	switch x.(type) {
	case bool:
		return types.Bool, true
	case int:
		return types.Int, true
	case int8:
		return types.Int8, true
	case int16:
		return types.Int16, true
	case int32:
		return types.Int32, true
	case int64:
		return types.Int64, true
	case uint:
		return types.Uint, true
	case uint8:
		return types.Uint8, true
	case uint16:
		return types.Uint16, true
	case uint32:
		return types.Uint32, true
	case uint64:
		return types.Uint64, true
	case uintptr:
		return types.Uintptr, true
	}
	return 0, false
}

// toTerm converts a concrete scalar or Sym to a term, returning its kind.
func (p *termPool) toTerm(x value) (*Term, types.BasicKind) {
	switch x := x.(type) {
	case *Sym:
		return x.t, x.k
	case bool:
		return p.Bool(x), types.Bool
	}
	k, ok := kindOfValue(x)
	if !ok {
		panic(fmt.Sprintf("toTerm: not a scalar: %T", x))
	}
	var u uint64
	switch x := x.(type) {
	case int:
		u = uint64(x)
	case int8:
		u = uint64(x)
	case int16:
		u = uint64(x)
	case int32:
		u = uint64(x)
	case int64:
		u = uint64(x)
	case uint:
		u = uint64(x)
	case uint8:
		u = uint64(x)
	case uint16:
		u = uint64(x)
	case uint32:
		u = uint64(x)
	case uint64:
		u = x
	case uintptr:
		u = uint64(x)
	}
	return p.BV(kindBits(k), u), k
}

// fromTerm boxes a term as a value of kind k, concretely if it is constant.
func fromTerm(t *Term, k types.BasicKind) value {
	if t.isConst() {
		if k == types.Bool {
			return t.cval != 0
		}
		bits := kindBits(k)
		if kindSigned(k) {
			return concreteOfKind(k, uint64(signExt(t.cval, bits)))
		}
		return concreteOfKind(k, t.cval)
	}
	return &Sym{t: t, k: k}
}

func isSymbolic(x value) bool {
	switch x.(type) {
	case *Sym, sstring, ostring:
		return true
	}
	return false
}

// ---------------------------------------------------------------------------
// evaluation of a term under a model (values of the variables; missing = 0)

type evaluator struct {
	vars map[*Term]uint64
	memo map[*Term]uint64
}

func newEvaluator() *evaluator {
	return &evaluator{vars: map[*Term]uint64{}, memo: map[*Term]uint64{}}
}

func (e *evaluator) reset(vars map[*Term]uint64) {
	e.vars = vars
	e.memo = map[*Term]uint64{}
}

func (e *evaluator) eval(t *Term) uint64 {
	switch t.op {
	case "const":
		return t.cval
	case "var":
		return e.vars[t]
	}
	if v, ok := e.memo[t]; ok {
		return v
	}
	var r uint64
	a := t.args
	b2u := func(b bool) uint64 {
		if b {
			return 1
		}
		return 0
	}
	switch t.op {
	case "not":
		r = 1 - e.eval(a[0])
	case "and":
		r = e.eval(a[0])
		if r != 0 {
			r = e.eval(a[1])
		}
	case "or":
		r = e.eval(a[0])
		if r == 0 {
			r = e.eval(a[1])
		}
	case "ite":
		if e.eval(a[0]) != 0 {
			r = e.eval(a[1])
		} else {
			r = e.eval(a[2])
		}
	case "=":
		r = b2u(e.eval(a[0]) == e.eval(a[1]))
	case "bvneg":
		r = (-e.eval(a[0])) & mask(t.sort.bits())
	case "bvnot":
		r = (^e.eval(a[0])) & mask(t.sort.bits())
	case "bvult", "bvule", "bvslt", "bvsle":
		x, y := e.eval(a[0]), e.eval(a[1])
		bits := a[0].sort.bits()
		switch t.op {
		case "bvult":
			r = b2u(x < y)
		case "bvule":
			r = b2u(x <= y)
		case "bvslt":
			r = b2u(signExt(x, bits) < signExt(y, bits))
		default:
			r = b2u(signExt(x, bits) <= signExt(y, bits))
		}
	case "bvadd", "bvsub", "bvmul", "bvand", "bvor", "bvxor", "bvshl", "bvlshr", "bvashr", "bvudiv", "bvurem", "bvsdiv", "bvsrem":
		x, y := e.eval(a[0]), e.eval(a[1])
		bits := t.sort.bits()
		m := mask(bits)
		switch t.op {
		case "bvadd":
			r = (x + y) & m
		case "bvsub":
			r = (x - y) & m
		case "bvmul":
			r = (x * y) & m
		case "bvand":
			r = x & y
		case "bvor":
			r = x | y
		case "bvxor":
			r = x ^ y
		case "bvshl":
			if y >= uint64(bits) {
				r = 0
			} else {
				r = (x << y) & m
			}
		case "bvlshr":
			if y >= uint64(bits) {
				r = 0
			} else {
				r = x >> y
			}
		case "bvashr":
			sx := signExt(x, bits)
			if y >= uint64(bits) {
				if sx < 0 {
					r = m
				} else {
					r = 0
				}
			} else {
				r = uint64(sx>>y) & m
			}
		case "bvudiv":
			if y == 0 {
				r = m
			} else {
				r = x / y
			}
		case "bvurem":
			if y == 0 {
				r = x
			} else {
				r = x % y
			}
		case "bvsdiv":
			sx, sy := signExt(x, bits), signExt(y, bits)
			switch {
			case sy == 0:
				if sx >= 0 {
					r = m
				} else {
					r = 1
				}
			case sy == -1:
				r = uint64(-sx) & m
			default:
				r = uint64(sx/sy) & m
			}
		case "bvsrem":
			sx, sy := signExt(x, bits), signExt(y, bits)
			switch {
			case sy == 0:
				r = x
			case sy == -1:
				r = 0
			default:
				r = uint64(sx%sy) & m
			}
		}
	default:
		var n int
		switch {
		case fmtSscan(t.op, "(_ extract %d 0)", &n):
			r = e.eval(a[0]) & mask(n+1)
		case fmtSscan(t.op, "(_ sign_extend %d)", &n):
			r = uint64(signExt(e.eval(a[0]), a[0].sort.bits())) & mask(t.sort.bits())
		case fmtSscan(t.op, "(_ zero_extend %d)", &n):
			r = e.eval(a[0])
		default:
			panic("evaluator: unknown operator " + t.op)
		}
	}
	e.memo[t] = r
	return r
}

func fmtSscan(s, format string, n *int) bool {
	k, err := fmt.Sscanf(s, format, n)
	return err == nil && k == 1
}
