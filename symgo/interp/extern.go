package interp

// Stubs, models and intrinsics for functions that are not interpreted from
// source. Every use is counted in interpreter.stubs and ends up in evidence.

import (
	"crypto/sha1"
	"encoding/hex"
	"fmt"
	"go/token"
	"go/types"
	"strconv"
	"strings"

	"golang.org/x/tools/go/ssa"
)

type externalFn func(fr *frame, args []value) value

// opaqueMark poisons a strings.Builder whose content became unknown.
type opaqueMark struct{}

type nativeObj struct {
	kind string
	data interface{}
}

// nativeType is the dynamic type of interface values implemented by the
// engine itself (no-op tracer, span, ...).
type nativeType struct {
	name string
	call func(i *interpreter, fr *frame, method string, args []value) value
}

func (t *nativeType) Underlying() types.Type { return t }
func (t *nativeType) String() string         { return "native:" + t.name }

type nativeMethod struct {
	t    *nativeType
	name string
	sig  *types.Signature
}

// blackholeType: every method returns the zero value of its result type.
var blackholeType *nativeType

type nativeFunc struct {
	name string
	f    func(i *interpreter, fr *frame, args []value) value
}

var noopSpanType, noopTracerType, noopTracerProviderType *nativeType

func init() {
	blackholeType = &nativeType{name: "blackhole"}
	noopSpanType = &nativeType{name: "noopSpan", call: func(i *interpreter, fr *frame, method string, args []value) value {
		i.stubs["noop span."+method]++
		switch method {
		case "IsRecording":
			return false
		case "TracerProvider":
			return iface{t: noopTracerProviderType, v: &nativeObj{kind: "tracerprovider"}}
		case "SpanContext":
			i.unsupported("noop span method %s", method)
		}
		return nil
	}}
	noopTracerProviderType = &nativeType{name: "noopTracerProvider", call: func(i *interpreter, fr *frame, method string, args []value) value {
		i.stubs["noop tracer provider."+method]++
		if method == "Tracer" {
			return iface{t: noopTracerType, v: &nativeObj{kind: "tracer"}}
		}
		i.unsupported("noop tracer provider method %s", method)
		return nil
	}}
	noopTracerType = &nativeType{name: "noopTracer", call: func(i *interpreter, fr *frame, method string, args []value) value {
		i.stubs["noop tracer."+method]++
		if method == "Start" {
			return tuple{args[1], iface{t: noopSpanType, v: &nativeObj{kind: "span"}}}
		}
		i.unsupported("noop tracer method %s", method)
		return nil
	}}
}

type extMarker struct{ f externalFn }

// externalFor returns the stub/model for fn, or nil if fn is to be
// interpreted from its body.
func (w *World) externalFor(fn *ssa.Function) externalFn {
	if v, ok := w.extCache.Load(fn); ok {
		return v.(extMarker).f
	}
	f := w.resolveExternal(fn)
	w.extCache.Store(fn, extMarker{f})
	return f
}

func counted(name string, f externalFn) externalFn {
	return func(fr *frame, args []value) value {
		fr.i.stubs[name]++
		return f(fr, args)
	}
}

func (w *World) resolveExternal(fn *ssa.Function) externalFn {
	name := fn.String()
	if o := fn.Origin(); o != nil {
		name = o.String()
	}
	// harness intrinsics
	if strings.HasPrefix(fn.Name(), "verif") && fn.Signature.Recv() == nil {
		if h, ok := harnessIntrinsics[fn.Name()]; ok {
			return h
		}
	}
	if f, ok := externals[name]; ok {
		return counted(name, f)
	}
	// body-less init functions of packages loaded from export data
	if fn.Name() == "init" && fn.Signature.Recv() == nil && fn.Signature.Params().Len() == 0 {
		if fn.Blocks == nil || (fn.Pkg != nil && initSkipped(fn.Pkg.Pkg.Path())) {
			return func(fr *frame, args []value) value { return nil }
		}
	}
	for _, ps := range policyStubs {
		if strings.HasPrefix(name, ps.prefix) {
			return counted(ps.label+" "+name, ps.mk(fn))
		}
	}
	if fn.Blocks != nil {
		return nil
	}
	// atomic primitives
	if strings.HasPrefix(name, "sync/atomic.") {
		if f := atomicPrimitive(strings.TrimPrefix(name, "sync/atomic.")); f != nil {
			return f
		}
	}
	if strings.HasPrefix(name, "internal/runtime/atomic.") {
		if f := atomicPrimitive(strings.TrimPrefix(name, "internal/runtime/atomic.")); f != nil {
			return f
		}
	}
	return nil
}

type policyStub struct {
	prefix string
	label  string
	mk     func(fn *ssa.Function) externalFn
}

// zeroResult returns the zero value(s) of fn's result type(s); a result whose
// type equals the receiver's type yields the receiver (fluent APIs).
func zeroResult(fn *ssa.Function) externalFn {
	sig := fn.Signature
	return func(fr *frame, args []value) value {
		res := sig.Results()
		if res.Len() == 0 {
			return nil
		}
		one := func(t types.Type) value {
			if sig.Recv() != nil && len(args) > 0 && types.Identical(t, sig.Recv().Type()) {
				return args[0]
			}
			return zero(t)
		}
		if res.Len() == 1 {
			return one(res.At(0).Type())
		}
		out := make(tuple, res.Len())
		for k := range out {
			out[k] = one(res.At(k).Type())
		}
		return out
	}
}

var policyStubs = []policyStub{
	{"(*github.com/ory/x/logrusx.Logger).", "no-op logger", zeroResult},
	{"(*github.com/sirupsen/logrus.Entry).", "no-op logger", zeroResult},
	{"(*github.com/sirupsen/logrus.Logger).", "no-op logger", zeroResult},
	{"github.com/ory/keto/x/events.", "no-op event", zeroResult},
	{"go.opentelemetry.io/otel/attribute.", "no-op otel attribute", zeroResult},
	{"go.opentelemetry.io/otel/trace.With", "no-op otel option", zeroResult},
	{"github.com/ory/x/otelx/semconv.", "no-op otel semconv", zeroResult},
	{"github.com/ory/x/otelx.WithSpan", "unsupported", nil},
}

func init() {
	// remove entries with nil mk
	var ps []policyStub
	for _, p := range policyStubs {
		if p.mk != nil {
			ps = append(ps, p)
		}
	}
	policyStubs = ps
}

var externals map[string]externalFn

func init() {
	externals = map[string]externalFn{
		// ---- tracing -------------------------------------------------
		"(*github.com/ory/x/otelx.Tracer).Tracer": func(fr *frame, args []value) value {
			return iface{t: noopTracerType, v: &nativeObj{kind: "tracer"}}
		},
		"github.com/ory/x/otelx.End": func(fr *frame, args []value) value { return nil },
		"go.opentelemetry.io/otel/trace.SpanFromContext": func(fr *frame, args []value) value {
			return iface{t: noopSpanType, v: &nativeObj{kind: "span"}}
		},

		"internal/reflectlite.TypeOf": func(fr *frame, args []value) value {
			return iface{t: blackholeType, v: &nativeObj{kind: "blackhole"}}
		},

		// ---- sync ----------------------------------------------------
		"(*sync.Mutex).Lock":      func(fr *frame, a []value) value { fr.i.sched.lock(a[0].(*value), fr.where()); return nil },
		"(*sync.Mutex).Unlock":    func(fr *frame, a []value) value { fr.i.sched.unlock(a[0].(*value)); return nil },
		"(*sync.Mutex).TryLock":   func(fr *frame, a []value) value { return fr.i.sched.tryLock(a[0].(*value)) },
		"(*sync.RWMutex).Lock":    func(fr *frame, a []value) value { fr.i.sched.lock(a[0].(*value), fr.where()); return nil },
		"(*sync.RWMutex).Unlock":  func(fr *frame, a []value) value { fr.i.sched.unlock(a[0].(*value)); return nil },
		"(*sync.RWMutex).RLock":   func(fr *frame, a []value) value { fr.i.sched.rlock(a[0].(*value), fr.where()); return nil },
		"(*sync.RWMutex).RUnlock": func(fr *frame, a []value) value { fr.i.sched.runlock(a[0].(*value)); return nil },
		// sync.Map: a list of (key, value) pairs per map, keys compared as interface values
		"(*sync.Map).Load": func(fr *frame, a []value) value {
			for _, e := range fr.i.syncMap(a[0]) {
				if e[0].(iface).eq(nil, a[1]) {
					return tuple{e[1], true}
				}
			}
			return tuple{iface{}, false}
		},
		"(*sync.Map).Store": func(fr *frame, a []value) value {
			m := fr.i.syncMap(a[0])
			for k, e := range m {
				if e[0].(iface).eq(nil, a[1]) {
					m[k][1] = a[2]
					return nil
				}
			}
			fr.i.setSyncMap(a[0], append(m, [2]value{a[1], a[2]}))
			return nil
		},
		"(*sync.Map).LoadOrStore": func(fr *frame, a []value) value {
			m := fr.i.syncMap(a[0])
			for _, e := range m {
				if e[0].(iface).eq(nil, a[1]) {
					return tuple{e[1], true}
				}
			}
			fr.i.setSyncMap(a[0], append(m, [2]value{a[1], a[2]}))
			return tuple{a[2], false}
		},
		"(*sync.Map).Delete": func(fr *frame, a []value) value {
			m := fr.i.syncMap(a[0])
			for k, e := range m {
				if e[0].(iface).eq(nil, a[1]) {
					fr.i.setSyncMap(a[0], append(append([][2]value{}, m[:k]...), m[k+1:]...))
					return nil
				}
			}
			return nil
		},
		"(*sync.Once).Do":         func(fr *frame, a []value) value { fr.i.sched.onceDo(a[0].(*value), a[1], fr.where()); return nil },
		"(*sync.WaitGroup).Add": func(fr *frame, a []value) value {
			fr.i.sched.wgAdd(a[0].(*value), fr.i.concreteInt(a[1], "WaitGroup delta"))
			return nil
		},
		"(*sync.WaitGroup).Done": func(fr *frame, a []value) value { fr.i.sched.wgAdd(a[0].(*value), -1); return nil },
		"(*sync.WaitGroup).Wait": func(fr *frame, a []value) value { fr.i.sched.wgWait(a[0].(*value), fr.where()); return nil },

		// ---- sync/atomic.Value --------------------------------------
		"(*sync/atomic.Value).Load": func(fr *frame, a []value) value {
			s := (*a[0].(*value)).(structure)
			fr.i.sched.point("atomic")
			fr.i.atomicAcq(a[0].(*value))
			if s[0] == nil {
				return iface{}
			}
			return s[0]
		},
		"(*sync/atomic.Value).Store": func(fr *frame, a []value) value {
			s := (*a[0].(*value)).(structure)
			fr.i.sched.point("atomic")
			s[0] = a[1]
			fr.i.atomicRel(a[0].(*value))
			return nil
		},
		"(*sync/atomic.Value).CompareAndSwap": func(fr *frame, a []value) value {
			s := (*a[0].(*value)).(structure)
			fr.i.sched.point("atomic")
			cur, _ := s[0].(iface)
			old := a[1].(iface)
			if sameType(cur.t, old.t) && (cur.t == nil || equals(cur.t, cur.v, old.v)) {
				s[0] = a[2]
				fr.i.atomicRel(a[0].(*value))
				return true
			}
			return false
		},

		// ---- context -------------------------------------------------
		"context.WithValue": extContextWithValue,
		"context.WithTimeout": func(fr *frame, a []value) value {
			// the timer never fires by itself: cancellation instants are driven by the harness
			fn := fr.i.w.funcByName("context", "WithCancel")
			return call(fr.i, fr, token.NoPos, fn, []value{a[0]})
		},
		"context.WithDeadline": func(fr *frame, a []value) value {
			fn := fr.i.w.funcByName("context", "WithCancel")
			return call(fr.i, fr, token.NoPos, fn, []value{a[0]})
		},

		// ---- errors --------------------------------------------------
		"errors.Is": extErrorsIs,
		"errors.As": extErrorsAs,
		"github.com/pkg/errors.WithStack": func(fr *frame, a []value) value {
			// keep the chain transparent: stack capture needs runtime.Callers
			return a[0]
		},
		"github.com/pkg/errors.callers": func(fr *frame, a []value) value { return (*value)(nil) },

		// ---- strings.Builder ----------------------------------------
		"(*strings.Builder).WriteString": func(fr *frame, a []value) value {
			s := (*a[0].(*value)).(structure)
			buf, _ := s[1].([]value)
			if _, ok := a[1].(ostring); ok {
				// content becomes unknown: the builder is poisoned and String() is opaque
				s[1] = append(buf, opaqueMark{})
				return tuple{0, iface{}}
			}
			b, _ := strBytes(a[1])
			s[1] = append(buf, b...)
			return tuple{len(b), iface{}}
		},
		"(*strings.Builder).WriteByte": func(fr *frame, a []value) value {
			s := (*a[0].(*value)).(structure)
			buf, _ := s[1].([]value)
			s[1] = append(buf, a[1])
			return iface{}
		},
		"(*strings.Builder).WriteRune": func(fr *frame, a []value) value {
			s := (*a[0].(*value)).(structure)
			buf, _ := s[1].([]value)
			r, ok := a[1].(int32)
			if !ok {
				s[1] = append(buf, opaqueMark{})
				return tuple{1, iface{}}
			}
			str := string(rune(r))
			for k := 0; k < len(str); k++ {
				buf = append(buf, str[k])
			}
			s[1] = buf
			return tuple{len(str), iface{}}
		},
		"(*strings.Builder).Write": func(fr *frame, a []value) value {
			s := (*a[0].(*value)).(structure)
			buf, _ := s[1].([]value)
			p := a[1].([]value)
			s[1] = append(buf, p...)
			return tuple{len(p), iface{}}
		},
		"(*strings.Builder).String": func(fr *frame, a []value) value {
			s := (*a[0].(*value)).(structure)
			buf, _ := s[1].([]value)
			for _, e := range buf {
				if _, ok := e.(opaqueMark); ok {
					return fr.i.freshOpaque("builder")
				}
			}
			return mkString(buf)
		},
		"(*strings.Builder).Len": func(fr *frame, a []value) value {
			s := (*a[0].(*value)).(structure)
			buf, _ := s[1].([]value)
			for _, e := range buf {
				if _, ok := e.(opaqueMark); ok {
					fr.i.unsupported("strings.Builder.Len after opaque content")
				}
			}
			return len(buf)
		},
		"(*strings.Builder).Grow":  func(fr *frame, a []value) value { return nil },
		"(*strings.Builder).Reset": func(fr *frame, a []value) value { (*a[0].(*value)).(structure)[1] = []value(nil); return nil },

		// ---- bytealg / stringslite intrinsics -----------------------
		"internal/bytealg.IndexByteString": func(fr *frame, a []value) value { return fr.i.indexByte(a[0], a[1]) },
		"internal/bytealg.IndexByte": func(fr *frame, a []value) value {
			return fr.i.indexByte(mkString(a[0].([]value)), a[1])
		},
		"internal/bytealg.LastIndexByteString": func(fr *frame, a []value) value { return fr.i.lastIndexByte(a[0], a[1]) },
		"internal/bytealg.LastIndexByte": func(fr *frame, a []value) value {
			return fr.i.lastIndexByte(mkString(a[0].([]value)), a[1])
		},
		"internal/bytealg.CountString": func(fr *frame, a []value) value { return fr.i.countByte(a[0], a[1]) },
		"internal/bytealg.Count": func(fr *frame, a []value) value {
			return fr.i.countByte(mkString(a[0].([]value)), a[1])
		},
		"internal/bytealg.MakeNoZero": func(fr *frame, a []value) value {
			n := fr.i.concreteInt(a[0], "MakeNoZero")
			out := make([]value, n)
			for k := range out {
				out[k] = uint8(0)
			}
			return out
		},
		"internal/bytealg.Equal": func(fr *frame, a []value) value {
			return fr.i.boxBool(fr.i.strEq(mkString(a[0].([]value)), mkString(a[1].([]value))))
		},
		"internal/bytealg.Compare": func(fr *frame, a []value) value {
			x, ok1 := mkString(a[0].([]value)).(string)
			y, ok2 := mkString(a[1].([]value)).(string)
			if !ok1 || !ok2 {
				fr.i.unsupported("bytes.Compare on symbolic bytes")
			}
			return strings.Compare(x, y)
		},
		"bytes.Equal": func(fr *frame, a []value) value {
			return fr.i.boxBool(fr.i.strEq(mkString(a[0].([]value)), mkString(a[1].([]value))))
		},
		"internal/bytealg.IndexString": func(fr *frame, a []value) value {
			s, ok1 := a[0].(string)
			sub, ok2 := a[1].(string)
			if !ok1 || !ok2 {
				fr.i.unsupported("bytealg.IndexString on symbolic strings")
			}
			return strings.Index(s, sub)
		},
		"internal/stringslite.Index": func(fr *frame, a []value) value { return fr.i.indexString(a[0], a[1]) },
		"strings.Index":              func(fr *frame, a []value) value { return fr.i.indexString(a[0], a[1]) },
		"strings.ContainsRune": func(fr *frame, a []value) value {
			r := fr.i.indexRuneASCII(fr, a[0], a[1])
			if r == nil {
				return callBody(fr.i, fr, fr.fn, a)
			}
			return fr.i.binop(fr, token.GEQ, nil, r, 0)
		},
		"strings.IndexRune": func(fr *frame, a []value) value {
			r := fr.i.indexRuneASCII(fr, a[0], a[1])
			if r == nil {
				return callBody(fr.i, fr, fr.fn, a)
			}
			return r
		},
		"strings.EqualFold": func(fr *frame, a []value) value {
			s, ok1 := a[0].(string)
			t, ok2 := a[1].(string)
			if !ok1 || !ok2 {
				fr.i.unsupported("strings.EqualFold on symbolic strings")
			}
			return strings.EqualFold(s, t)
		},

		// ---- fmt -----------------------------------------------------
		"fmt.Sprintf": func(fr *frame, a []value) value { return fr.i.sprintf(fr, a[0], a[1].([]value)) },
		"fmt.Errorf": func(fr *frame, a []value) value {
			return fr.i.errorf(fr, a[0], a[1].([]value))
		},
		"fmt.Sprint": func(fr *frame, a []value) value {
			args := a[0].([]value)
			f := strings.TrimSpace(strings.Repeat("%v ", len(args)))
			return fr.i.sprintf(fr, f, args)
		},
		"fmt.Sprintln": func(fr *frame, a []value) value {
			args := a[0].([]value)
			f := strings.TrimSpace(strings.Repeat("%v ", len(args))) + "\n"
			return fr.i.sprintf(fr, f, args)
		},
		"fmt.Fprintf": func(fr *frame, a []value) value {
			// writes into a *strings.Builder are modelled; other writers are sinks
			if w, ok := a[0].(iface); ok && w.t != nil && w.t.String() == "*strings.Builder" {
				s := fr.i.sprintf(fr, a[1], a[2].([]value))
				st := (*w.v.(*value)).(structure)
				buf, _ := st[1].([]value)
				if _, opaque := s.(ostring); opaque {
					st[1] = append(buf, opaqueMark{})
					return tuple{0, iface{}}
				}
				b, _ := strBytes(s)
				st[1] = append(buf, b...)
				return tuple{len(b), iface{}}
			}
			fr.i.stubs["fmt.Fprintf to a non-Builder writer is a sink"]++
			return tuple{0, iface{}}
		},
		"fmt.Fprintln": func(fr *frame, a []value) value { return tuple{0, iface{}} },
		"fmt.Fprint":   func(fr *frame, a []value) value { return tuple{0, iface{}} },
		"fmt.Println":  func(fr *frame, a []value) value { return tuple{0, iface{}} },
		"fmt.Printf":   func(fr *frame, a []value) value { return tuple{0, iface{}} },

		// iter.Pull runs on runtime coroutines; finite, side-effect-free sequences
		// (maps.Keys, slices.Values) are drained eagerly instead
		"iter.Pull": func(fr *frame, a []value) value {
			i := fr.i
			var items []value
			yield := &nativeFunc{name: "iter.Pull.yield", f: func(i *interpreter, fr *frame, args []value) value {
				if len(items) > 100000 {
					i.unsupported("iter.Pull over a sequence with more than 100000 elements")
				}
				items = append(items, args[0])
				return true
			}}
			call(i, fr, token.NoPos, a[0], []value{yield})
			fn := fr.fn
			resT := fn.Signature.Results().At(0).Type().(*types.Signature).Results().At(0).Type()
			pos := 0
			stopped := false
			next := &nativeFunc{name: "iter.Pull.next", f: func(i *interpreter, fr *frame, args []value) value {
				if stopped || pos >= len(items) {
					return tuple{zero(resT), false}
				}
				v := items[pos]
				pos++
				return tuple{v, true}
			}}
			stop := &nativeFunc{name: "iter.Pull.stop", f: func(i *interpreter, fr *frame, args []value) value {
				stopped = true
				return nil
			}}
			return tuple{next, stop}
		},

		// ---- uuid ----------------------------------------------------
		"github.com/gofrs/uuid.NewV5": extUUIDNewV5,
		"(github.com/gofrs/uuid.UUID).String": func(fr *frame, a []value) value {
			u := fr.i.concreteUUID(a[0])
			return uuidString(u)
		},
		"github.com/gofrs/uuid.FromString": extUUIDFromString,
		"github.com/gofrs/uuid.NewV4":      extUUIDNewV4,

		"internal/stringslite.Clone": func(fr *frame, a []value) value { return a[0] },
		"strings.Clone":              func(fr *frame, a []value) value { return a[0] },
		"google.golang.org/grpc/status.Errorf": func(fr *frame, a []value) value {
			msg := fr.i.sprintf(fr, a[1], a[2].([]value))
			return iface{t: fmtErrorType, v: &nativeObj{kind: "grpcStatus", data: &fmtErr{msg: msg, code: asInt64(a[0])}}}
		},
		"google.golang.org/grpc/status.Error": func(fr *frame, a []value) value {
			return iface{t: fmtErrorType, v: &nativeObj{kind: "grpcStatus", data: &fmtErr{msg: a[1], code: asInt64(a[0])}}}
		},
		"(*net/http.Request).Context": func(fr *frame, a []value) value {
			fn := fr.i.w.funcByName("context", "Background")
			return call(fr.i, fr, token.NoPos, fn, nil)
		},
		"(net/url.Values).Encode": func(fr *frame, a []value) value {
			m, _ := a[0].(*omap)
			if m != nil {
				for k := range m.keys {
					if !m.alive[k] {
						continue
					}
					for _, v := range m.vals[k].([]value) {
						if _, ok := v.(string); !ok {
							fr.i.stubs["url.Values.Encode of symbolic values yields a fresh opaque string"]++
							return fr.i.freshOpaque("urlenc")
						}
					}
				}
			}
			return callBody(fr.i, fr, fr.fn, a)
		},
		"encoding/json.NewDecoder": newZeroPointee,
		"encoding/json.NewEncoder": newZeroPointee,

		// ---- misc ----------------------------------------------------
		"net/http.StatusText": func(fr *frame, a []value) value { return httpStatusText(int(asInt64(a[0]))) },
		"runtime.Gosched":     func(fr *frame, a []value) value { fr.i.sched.point("gosched"); return nil },
		"time.Now":            func(fr *frame, a []value) value { return zero(fr.fn.Signature.Results().At(0).Type()) },
		"time.Since":          func(fr *frame, a []value) value { return int64(0) },
		"os.Getenv":           func(fr *frame, a []value) value { return "" },
		"unicode/utf8.ValidString": func(fr *frame, a []value) value {
			if s, ok := a[0].(string); ok {
				return utf8ValidString(s)
			}
			fn := fr.fn
			if fn.Blocks == nil {
				fr.i.unsupported("utf8.ValidString on symbolic string without source")
			}
			return callBody(fr.i, fr, fn, a)
		},
	}
}

// newZeroPointee returns a pointer to the zero value of the pointee of the
// function's (single, pointer-typed) result.
func newZeroPointee(fr *frame, a []value) value {
	rt := fr.fn.Signature.Results().At(0).Type()
	var v value = zero(deref(rt))
	return &v
}

// callBody runs fn's own body even though an external is registered for it.
func callBody(i *interpreter, caller *frame, fn *ssa.Function, args []value) value {
	i.skipExt = fn
	return callSSA(i, caller, token.NoPos, fn, args, nil)
}

func utf8ValidString(s string) bool {
	for _, r := range s {
		if r == 0xFFFD {
			// could be a genuine U+FFFD; re-check bytes
			return strings.ToValidUTF8(s, "") == s
		}
	}
	return true
}

func httpStatusText(code int) string {
	switch code {
	case 200:
		return "OK"
	case 201:
		return "Created"
	case 204:
		return "No Content"
	case 400:
		return "Bad Request"
	case 401:
		return "Unauthorized"
	case 403:
		return "Forbidden"
	case 404:
		return "Not Found"
	case 409:
		return "Conflict"
	case 415:
		return "Unsupported Media Type"
	case 422:
		return "Unprocessable Entity"
	case 500:
		return "Internal Server Error"
	case 501:
		return "Not Implemented"
	case 502:
		return "Bad Gateway"
	case 503:
		return "Service Unavailable"
	case 504:
		return "Gateway Timeout"
	case 499:
		return ""
	}
	return "Status " + strconv.Itoa(code)
}

// ---------------------------------------------------------------------------
// atomics

func (i *interpreter) atomicAcq(addr *value) {
	if !i.cfg.Race {
		return
	}
	m := i.sched.mutexOf(addr)
	i.sched.acquire(&m.vc)
}

func (i *interpreter) atomicRel(addr *value) {
	if !i.cfg.Race {
		return
	}
	m := i.sched.mutexOf(addr)
	i.sched.release(&m.vc)
}

func atomicPrimitive(name string) externalFn {
	ops := []string{"CompareAndSwap", "Load", "Store", "Add", "Swap", "And", "Or", "Cas", "Xadd", "Xchg"}
	for _, op := range ops {
		if strings.HasPrefix(name, op) {
			op := op
			return func(fr *frame, a []value) value {
				i := fr.i
				i.stubs["sync/atomic primitive "+op]++
				addr := a[0].(*value)
				i.sched.point("atomic")
				switch op {
				case "Load":
					i.atomicAcq(addr)
					return *addr
				case "Store":
					*addr = a[1]
					i.atomicRel(addr)
					return nil
				case "Add", "Xadd":
					i.atomicAcq(addr)
					*addr = i.binop(fr, token.ADD, nil, *addr, a[1])
					i.atomicRel(addr)
					return *addr
				case "Swap", "Xchg":
					i.atomicAcq(addr)
					old := *addr
					*addr = a[1]
					i.atomicRel(addr)
					return old
				case "CompareAndSwap", "Cas":
					i.atomicAcq(addr)
					eq := i.eqTerm(nil, *addr, a[1])
					if i.ps.branch(eq) {
						*addr = a[2]
						i.atomicRel(addr)
						return true
					}
					return false
				case "And":
					old := *addr
					*addr = i.binop(fr, token.AND, nil, *addr, a[1])
					return old
				case "Or":
					old := *addr
					*addr = i.binop(fr, token.OR, nil, *addr, a[1])
					return old
				}
				return nil
			}
		}
	}
	return nil
}

// ---------------------------------------------------------------------------
// context.WithValue: builds *context.valueCtx without reflectlite

func extContextWithValue(fr *frame, a []value) value {
	i := fr.i
	parent := a[0].(iface)
	if parent.t == nil {
		panic(targetPanic{v: iface{t: types.Typ[types.String], v: "cannot create context from nil parent"}})
	}
	cp := i.w.ssaPkgs["context"]
	if cp == nil || cp.Type("valueCtx") == nil {
		i.unsupported("context.WithValue: package context not loaded from source")
	}
	vt := cp.Type("valueCtx").Type()
	var obj value = structure{parent, a[1], a[2]}
	return iface{t: types.NewPointer(vt), v: &obj}
}

// ---------------------------------------------------------------------------
// errors.Is / errors.As (stdlib algorithm, calling interpreted methods)

func (i *interpreter) methodOf(t types.Type, name string) *ssa.Function {
	if _, ok := t.(*nativeType); ok {
		return nil
	}
	ms := i.prog.MethodSets.MethodSet(t)
	for k := 0; k < ms.Len(); k++ {
		sel := ms.At(k)
		if sel.Obj().Name() == name {
			return i.prog.MethodValue(sel)
		}
	}
	return nil
}

func comparableType(t types.Type) bool {
	if _, ok := t.(*nativeType); ok {
		return true
	}
	return types.Comparable(t)
}

func extErrorsIs(fr *frame, a []value) value {
	i := fr.i
	err := a[0].(iface)
	target := a[1].(iface)
	if err.t == nil || target.t == nil {
		return err.t == nil && target.t == nil
	}
	return i.errorsIs(fr, err, target, comparableType(target.t), 0)
}

func (i *interpreter) errorsIs(fr *frame, err, target iface, cmp bool, depth int) value {
	if depth > 64 {
		i.unsupported("errors.Is chain deeper than 64")
	}
	for {
		if cmp && sameType(err.t, target.t) {
			eq := i.eqTerm(err.t, err.v, target.v)
			if i.ps.branch(eq) {
				return true
			}
		}
		if err.t == fmtErrorType {
			// fmt.Errorf("...%w", e): no Is method, Unwrap gives e
			err = err.v.(*nativeObj).data.(*fmtErr).wrapped
			if err.t == nil {
				return false
			}
			continue
		}
		if _, native := err.t.(*nativeType); native {
			return false
		}
		if m := i.methodOf(err.t, "Is"); m != nil && m.Signature.Params().Len() == 1 && m.Signature.Results().Len() == 1 {
			r := call(i, fr, token.NoPos, m, []value{err.v, target})
			switch r := r.(type) {
			case bool:
				if r {
					return true
				}
			case *Sym:
				if i.ps.branch(r.t) {
					return true
				}
			}
		}
		if err.t == fmtErrorType {
			err = err.v.(*nativeObj).data.(*fmtErr).wrapped
			if err.t == nil {
				return false
			}
			continue
		}
		m := i.methodOf(err.t, "Unwrap")
		if m == nil || m.Signature.Params().Len() != 0 || m.Signature.Results().Len() != 1 {
			return false
		}
		r := call(i, fr, token.NoPos, m, []value{err.v})
		switch r := r.(type) {
		case iface:
			if r.t == nil {
				return false
			}
			err = r
		case []value:
			for _, e := range r {
				ei := e.(iface)
				if ei.t == nil {
					continue
				}
				if v, _ := i.errorsIs(fr, ei, target, cmp, depth+1).(bool); v {
					return true
				}
			}
			return false
		default:
			return false
		}
		depth++
		if depth > 64 {
			i.unsupported("errors.Is chain deeper than 64")
		}
	}
}

func extErrorsAs(fr *frame, a []value) value {
	i := fr.i
	err := a[0].(iface)
	target := a[1].(iface)
	if target.t == nil {
		panic(targetPanic{v: iface{t: types.Typ[types.String], v: "errors: target cannot be nil"}})
	}
	pt, ok := target.t.Underlying().(*types.Pointer)
	if !ok {
		panic(targetPanic{v: iface{t: types.Typ[types.String], v: "errors: target must be a non-nil pointer"}})
	}
	tp := target.v.(*value)
	elem := pt.Elem()
	for depth := 0; err.t != nil && depth < 64; depth++ {
		if _, native := err.t.(*nativeType); !native {
			if _, isIface := elem.Underlying().(*types.Interface); isIface {
				if types.AssignableTo(err.t, elem) {
					*tp = err
					return true
				}
			} else if types.Identical(err.t, elem) {
				*tp = err.v
				return true
			}
		}
		if err.t == fmtErrorType {
			err = err.v.(*nativeObj).data.(*fmtErr).wrapped
			continue
		}
		if m := i.methodOf(err.t, "As"); m != nil && m.Signature.Params().Len() == 1 {
			if r, _ := call(i, fr, token.NoPos, m, []value{err.v, target}).(bool); r {
				return true
			}
		}
		m := i.methodOf(err.t, "Unwrap")
		if m == nil || m.Signature.Params().Len() != 0 || m.Signature.Results().Len() != 1 {
			return false
		}
		r, isI := call(i, fr, token.NoPos, m, []value{err.v}).(iface)
		if !isI {
			return false
		}
		err = r
	}
	return false
}

// ---------------------------------------------------------------------------
// byte search intrinsics on symbolic-byte strings

// indexByte returns the index of the first byte equal to c, or -1, as an
// ite chain when anything is symbolic.
func (i *interpreter) indexByte(s value, c value) value {
	if _, ok := s.(ostring); ok {
		i.unsupported("IndexByte on opaque symbolic string")
	}
	b, _ := strBytes(s)
	p := i.ps.pool
	tc, _ := p.toTerm(c)
	res := p.BV(64, ^uint64(0))
	for k := len(b) - 1; k >= 0; k-- {
		tb, _ := p.toTerm(b[k])
		res = p.Ite(p.Eq(tb, tc), p.BV(64, uint64(k)), res)
	}
	return fromTerm(res, types.Int)
}

// lastIndexByte: index of the last occurrence of c in s, -1 if absent.
func (i *interpreter) lastIndexByte(s value, c value) value {
	if _, ok := s.(ostring); ok {
		i.unsupported("LastIndexByte on opaque symbolic string")
	}
	b, _ := strBytes(s)
	p := i.ps.pool
	tc, _ := p.toTerm(c)
	res := p.BV(64, ^uint64(0))
	for k := 0; k < len(b); k++ {
		tb, _ := p.toTerm(b[k])
		res = p.Ite(p.Eq(tb, tc), p.BV(64, uint64(k)), res)
	}
	return fromTerm(res, types.Int)
}

func (i *interpreter) countByte(s value, c value) value {
	b, _ := strBytes(s)
	p := i.ps.pool
	tc, _ := p.toTerm(c)
	res := p.BV(64, 0)
	for k := range b {
		tb, _ := p.toTerm(b[k])
		res = p.BinBV("bvadd", res, p.Ite(p.Eq(tb, tc), p.BV(64, 1), p.BV(64, 0)))
	}
	return fromTerm(res, types.Int)
}

// indexString: first index of concrete-or-symbolic substr in s.
func (i *interpreter) indexString(s, sub value) value {
	if cs, ok := s.(string); ok {
		if csub, ok := sub.(string); ok {
			return strings.Index(cs, csub)
		}
	}
	if _, ok := s.(ostring); ok {
		i.unsupported("strings.Index on opaque symbolic string")
	}
	if _, ok := sub.(ostring); ok {
		i.unsupported("strings.Index on opaque symbolic string")
	}
	b, _ := strBytes(s)
	sb, _ := strBytes(sub)
	p := i.ps.pool
	if len(sb) == 0 {
		return 0
	}
	res := p.BV(64, ^uint64(0))
	for k := len(b) - len(sb); k >= 0; k-- {
		m := p.Bool(true)
		for j := range sb {
			tb, _ := p.toTerm(b[k+j])
			ts, _ := p.toTerm(sb[j])
			m = p.And(m, p.Eq(tb, ts))
		}
		res = p.Ite(m, p.BV(64, uint64(k)), res)
	}
	return fromTerm(res, types.Int)
}

// ---------------------------------------------------------------------------
// uuid intrinsics (concrete arguments; symbolic ones are concretised)

func (i *interpreter) concreteUUID(v value) [16]byte {
	a := v.(array)
	var u [16]byte
	for k := range u {
		u[k] = byte(i.concreteInt(a[k], "uuid byte"))
	}
	return u
}

func uuidValue(u [16]byte) value {
	a := make(array, 16)
	for k := range a {
		a[k] = u[k]
	}
	return a
}

func uuidString(u [16]byte) string {
	var buf [36]byte
	hex.Encode(buf[0:8], u[0:4])
	buf[8] = '-'
	hex.Encode(buf[9:13], u[4:6])
	buf[13] = '-'
	hex.Encode(buf[14:18], u[6:8])
	buf[18] = '-'
	hex.Encode(buf[19:23], u[8:10])
	buf[23] = '-'
	hex.Encode(buf[24:], u[10:])
	return string(buf[:])
}

func extUUIDNewV5(fr *frame, a []value) value {
	i := fr.i
	ns := i.concreteUUID(a[0])
	name := i.concreteString(a[1], "uuid.NewV5 name")
	h := sha1.New()
	h.Write(ns[:])
	h.Write([]byte(name))
	sum := h.Sum(nil)
	var u [16]byte
	copy(u[:], sum)
	u[6] = (u[6] & 0x0f) | (5 << 4)
	u[8] = (u[8]&(0xff>>2) | (0x02 << 6))
	return uuidValue(u)
}

func extUUIDFromString(fr *frame, a []value) value {
	i := fr.i
	if _, ok := a[0].(string); !ok {
		// interpret the real parser on symbolic input
		if fr.fn.Blocks != nil {
			return callBody(i, fr, fr.fn, a)
		}
		i.unsupported("uuid.FromString on symbolic string")
	}
	s := a[0].(string)
	u, ok := parseUUID(s)
	if !ok {
		if fr.fn.Blocks != nil {
			return callBody(i, fr, fr.fn, a)
		}
		errv := i.newError("uuid: incorrect UUID format in string " + strconv.Quote(s))
		return tuple{uuidValue([16]byte{}), errv}
	}
	return tuple{uuidValue(u), iface{}}
}

// parseUUID handles the canonical 36-byte form only.
func parseUUID(s string) (u [16]byte, ok bool) {
	if len(s) != 36 || s[8] != '-' || s[13] != '-' || s[18] != '-' || s[23] != '-' {
		return u, false
	}
	h := s[0:8] + s[9:13] + s[14:18] + s[19:23] + s[24:]
	b, err := hex.DecodeString(h)
	if err != nil || len(b) != 16 {
		return u, false
	}
	copy(u[:], b)
	return u, true
}

func extUUIDNewV4(fr *frame, a []value) value {
	i := fr.i
	n, _ := i.hstate["uuid.v4.counter"].(int)
	n++
	i.hstate["uuid.v4.counter"] = n
	var u [16]byte
	u[0] = 0xF4
	u[6] = 0x40
	u[8] = 0x80
	u[14] = byte(n >> 8)
	u[15] = byte(n)
	return tuple{uuidValue(u), iface{}}
}

func (i *interpreter) concreteString(v value, what string) string {
	switch s := v.(type) {
	case string:
		return s
	case sstring:
		b := make([]byte, len(s.b))
		for k, e := range s.b {
			b[k] = byte(i.concreteInt(e, what))
		}
		return string(b)
	case ostring:
		id := i.ps.concretize(s.t, what)
		if id >= 1 && int(id) <= len(i.ps.pool.strsR) {
			return i.ps.pool.strsR[id-1]
		}
		return fmt.Sprintf("\x00fresh%d", int64(id))
	}
	panic(fmt.Sprintf("concreteString: %T", v))
}

// newError builds an errors.New(msg) value.
func (i *interpreter) newError(msg string) value {
	ep := i.w.ssaPkgs["errors"]
	if ep == nil || ep.Type("errorString") == nil {
		i.unsupported("package errors not loaded from source")
	}
	est := ep.Type("errorString").Type()
	var obj value = structure{msg}
	return iface{t: types.NewPointer(est), v: &obj}
}

// indexRuneASCII models strings.IndexRune(s, r) exactly for a concrete
// all-ASCII s and a symbolic r (an ite chain, no forks). Returns nil when the
// model does not apply.
func (i *interpreter) indexRuneASCII(fr *frame, s value, r value) value {
	cs, ok := s.(string)
	if !ok {
		return nil
	}
	rs, ok := r.(*Sym)
	if !ok {
		return nil
	}
	for k := 0; k < len(cs); k++ {
		if cs[k] >= 0x80 {
			return nil
		}
	}
	p := i.ps.pool
	res := p.BV(64, ^uint64(0))
	bits := kindBits(rs.k)
	for k := len(cs) - 1; k >= 0; k-- {
		res = p.Ite(p.Eq(rs.t, p.BV(bits, uint64(cs[k]))), p.BV(64, uint64(k)), res)
	}
	return fromTerm(res, types.Int)
}


// sync.Map state lives beside the interpreted memory, keyed by the map's address.
func (i *interpreter) syncMap(p value) [][2]value {
	t, _ := i.hstate["sync.Map"].(map[*value][][2]value)
	return t[p.(*value)]
}

func (i *interpreter) setSyncMap(p value, m [][2]value) {
	t, _ := i.hstate["sync.Map"].(map[*value][][2]value)
	if t == nil {
		t = map[*value][][2]value{}
		i.hstate["sync.Map"] = t
	}
	t[p.(*value)] = m
}
