package interp

// Symbolic counterparts of the concrete operators in ops.go.

import (
	"fmt"
	"go/token"
	"go/types"
	"strings"
	"unicode/utf8"

	"golang.org/x/tools/go/ssa"
)

func isSym(x value) bool {
	_, ok := x.(*Sym)
	return ok
}

// strBytes returns the bytes of a concrete or symbolic-byte string.
func strBytes(x value) ([]value, bool) {
	switch x := x.(type) {
	case string:
		b := make([]value, len(x))
		for k := 0; k < len(x); k++ {
			b[k] = x[k]
		}
		return b, true
	case sstring:
		return x.b, true
	}
	return nil, false
}

// mkString boxes bytes as a string, concretely when no byte is symbolic.
func mkString(b []value) value {
	buf := make([]byte, len(b))
	for k, e := range b {
		c, ok := e.(uint8)
		if !ok {
			return sstring{b: append([]value(nil), b...)}
		}
		buf[k] = c
	}
	return string(buf)
}

func (i *interpreter) binop(fr *frame, op token.Token, t types.Type, x, y value) value {
	switch op {
	case token.EQL:
		return i.boxBool(i.eqTerm(t, x, y))
	case token.NEQ:
		return i.boxBool(i.ps.pool.Not(i.eqTerm(t, x, y)))
	}
	_, xs := x.(*Sym)
	_, ys := y.(*Sym)
	if xs || ys {
		return i.symBinop(fr, op, x, y)
	}
	switch x.(type) {
	case sstring, ostring:
		return i.strBinop(op, x, y)
	}
	switch y.(type) {
	case sstring, ostring:
		return i.strBinop(op, x, y)
	}
	// division by zero is a target-level panic
	if op == token.QUO || op == token.REM {
		if k, ok := kindOfValue(y); ok && k != types.Bool && asInt64(y) == 0 {
			panic(targetPanic{v: i.runtimeErr("integer divide by zero")})
		}
	}
	return binopConcrete(op, t, x, y)
}

func (i *interpreter) boxBool(t *Term) value {
	if t.isConst() {
		return t.cval != 0
	}
	return &Sym{t: t, k: types.Bool}
}

func (i *interpreter) symBinop(fr *frame, op token.Token, x, y value) value {
	p := i.ps.pool
	tx, kx := p.toTerm(x)
	ty, ky := p.toTerm(y)
	if kx == types.Bool {
		switch op {
		case token.AND, token.LAND:
			return i.boxBool(p.And(tx, ty))
		case token.OR, token.LOR:
			return i.boxBool(p.Or(tx, ty))
		}
		panic(fmt.Sprintf("symBinop: bad bool op %s", op))
	}
	signed := kindSigned(kx)
	bits := kindBits(kx)
	switch op {
	case token.SHL, token.SHR:
		// normalise the shift count to x's width (saturating)
		yb := kindBits(ky)
		if yb != bits {
			if yb > bits {
				lim := p.BV(yb, uint64(bits))
				ty = p.Ite(p.CmpBV("bvult", ty, lim), ty, lim)
			}
			ty = p.Resize(ty, false, bits)
		}
		switch {
		case op == token.SHL:
			return fromTerm(p.BinBV("bvshl", tx, ty), kx)
		case signed:
			return fromTerm(p.BinBV("bvashr", tx, ty), kx)
		default:
			return fromTerm(p.BinBV("bvlshr", tx, ty), kx)
		}
	}
	if tx.sort != ty.sort {
		panic(fmt.Sprintf("symBinop %s: operand kinds differ: %v %v", op, kx, ky))
	}
	switch op {
	case token.ADD:
		return fromTerm(p.BinBV("bvadd", tx, ty), kx)
	case token.SUB:
		return fromTerm(p.BinBV("bvsub", tx, ty), kx)
	case token.MUL:
		return fromTerm(p.BinBV("bvmul", tx, ty), kx)
	case token.QUO, token.REM:
		zeroT := p.BV(bits, 0)
		if i.ps.branch(p.Eq(ty, zeroT)) {
			panic(targetPanic{v: i.runtimeErr("integer divide by zero")})
		}
		var o string
		switch {
		case op == token.QUO && signed:
			o = "bvsdiv"
		case op == token.QUO:
			o = "bvudiv"
		case signed:
			o = "bvsrem"
		default:
			o = "bvurem"
		}
		return fromTerm(p.BinBV(o, tx, ty), kx)
	case token.AND:
		return fromTerm(p.BinBV("bvand", tx, ty), kx)
	case token.OR:
		return fromTerm(p.BinBV("bvor", tx, ty), kx)
	case token.XOR:
		return fromTerm(p.BinBV("bvxor", tx, ty), kx)
	case token.AND_NOT:
		return fromTerm(p.BinBV("bvand", tx, p.NotBV(ty)), kx)
	case token.LSS:
		if signed {
			return i.boxBool(p.CmpBV("bvslt", tx, ty))
		}
		return i.boxBool(p.CmpBV("bvult", tx, ty))
	case token.LEQ:
		if signed {
			return i.boxBool(p.CmpBV("bvsle", tx, ty))
		}
		return i.boxBool(p.CmpBV("bvule", tx, ty))
	case token.GTR:
		if signed {
			return i.boxBool(p.CmpBV("bvslt", ty, tx))
		}
		return i.boxBool(p.CmpBV("bvult", ty, tx))
	case token.GEQ:
		if signed {
			return i.boxBool(p.CmpBV("bvsle", ty, tx))
		}
		return i.boxBool(p.CmpBV("bvule", ty, tx))
	}
	panic(fmt.Sprintf("symBinop: unsupported op %s", op))
}

func (i *interpreter) strBinop(op token.Token, x, y value) value {
	if op == token.ADD {
		_, xo := x.(ostring)
		_, yo := y.(ostring)
		if xo || yo {
			// content unknown either way: the concatenation is a fresh opaque string
			i.stubs["opaque string concatenation yields a fresh opaque string"]++
			return i.freshOpaque("cat")
		}
	}
	if _, ok := x.(ostring); ok {
		i.unsupported("operator %s on opaque symbolic string", op)
	}
	if _, ok := y.(ostring); ok {
		i.unsupported("operator %s on opaque symbolic string", op)
	}
	bx, _ := strBytes(x)
	by, _ := strBytes(y)
	p := i.ps.pool
	switch op {
	case token.ADD:
		return mkString(append(append([]value(nil), bx...), by...))
	case token.LSS, token.LEQ, token.GTR, token.GEQ:
		if op == token.GTR || op == token.GEQ {
			bx, by = by, bx
		}
		// lexicographic bx < by  (or <=)
		strict := op == token.LSS || op == token.GTR
		// build from the end
		var res *Term
		n := len(bx)
		if len(by) < n {
			n = len(by)
		}
		// after the common prefix: shorter is smaller
		if len(bx) < len(by) {
			res = p.Bool(true)
		} else if len(bx) == len(by) {
			res = p.Bool(!strict)
		} else {
			res = p.Bool(false)
		}
		for k := n - 1; k >= 0; k-- {
			tx, _ := p.toTerm(bx[k])
			ty, _ := p.toTerm(by[k])
			res = p.Ite(p.CmpBV("bvult", tx, ty), p.Bool(true), p.Ite(p.Eq(tx, ty), res, p.Bool(false)))
		}
		return i.boxBool(res)
	}
	panic(fmt.Sprintf("strBinop: unsupported op %s", op))
}

// eqTerm builds the term "x == y" for values of static type t.
func (i *interpreter) eqTerm(t types.Type, x, y value) *Term {
	p := i.ps.pool
	switch xv := x.(type) {
	case *Sym:
		tx, _ := p.toTerm(x)
		ty, _ := p.toTerm(y)
		return p.Eq(tx, ty)
	case sstring:
		return i.strEq(x, y)
	case ostring:
		return i.strEq(x, y)
	case string:
		switch y.(type) {
		case sstring, ostring:
			return i.strEq(x, y)
		}
		return p.Bool(xv == y.(string))
	case structure:
		yv := y.(structure)
		st, _ := t.Underlying().(*types.Struct)
		res := p.Bool(true)
		for k := range xv {
			var ft types.Type
			if st != nil {
				if st.Field(k).Name() == "_" {
					continue
				}
				ft = st.Field(k).Type()
			}
			res = p.And(res, i.eqTerm(ft, xv[k], yv[k]))
			if res.isFalse() {
				return res
			}
		}
		return res
	case array:
		yv := y.(array)
		var et types.Type
		if at, ok := t.Underlying().(*types.Array); ok {
			et = at.Elem()
		}
		res := p.Bool(true)
		for k := range xv {
			res = p.And(res, i.eqTerm(et, xv[k], yv[k]))
			if res.isFalse() {
				return res
			}
		}
		return res
	case iface:
		yv := y.(iface)
		if !sameType(xv.t, yv.t) {
			return p.Bool(false)
		}
		if xv.t == nil {
			return p.Bool(true)
		}
		switch xv.t.Underlying().(type) {
		case *types.Map, *types.Signature, *types.Slice:
			panic(targetPanic{v: i.runtimeErr("comparing uncomparable type " + xv.t.String())})
		}
		return i.eqTerm(xv.t, xv.v, yv.v)
	}
	if _, ok := y.(*Sym); ok {
		tx, _ := p.toTerm(x)
		ty, _ := p.toTerm(y)
		return p.Eq(tx, ty)
	}
	if t == nil {
		return p.Bool(equals(t, x, y))
	}
	return p.Bool(eqnil(t, x, y))
}

func (i *interpreter) strEq(x, y value) *Term {
	p := i.ps.pool
	ox, xo := x.(ostring)
	oy, yo := y.(ostring)
	if xo || yo {
		var tx, ty *Term
		switch {
		case xo:
			tx = ox.t
		default:
			s, ok := x.(string)
			if !ok {
				i.unsupported("comparison of opaque string with symbolic-byte string")
			}
			tx = p.StrConst(s)
		}
		switch {
		case yo:
			ty = oy.t
		default:
			s, ok := y.(string)
			if !ok {
				i.unsupported("comparison of opaque string with symbolic-byte string")
			}
			ty = p.StrConst(s)
		}
		return p.Eq(tx, ty)
	}
	bx, _ := strBytes(x)
	by, _ := strBytes(y)
	if len(bx) != len(by) {
		return p.Bool(false)
	}
	res := p.Bool(true)
	for k := range bx {
		tx, _ := p.toTerm(bx[k])
		ty, _ := p.toTerm(by[k])
		res = p.And(res, p.Eq(tx, ty))
		if res.isFalse() {
			break
		}
	}
	return res
}

func (i *interpreter) unop(instr *ssa.UnOp, x value) value {
	if s, ok := x.(*Sym); ok {
		p := i.ps.pool
		switch instr.Op {
		case token.SUB:
			return fromTerm(p.NegBV(s.t), s.k)
		case token.NOT:
			return i.boxBool(p.Not(s.t))
		case token.XOR:
			return fromTerm(p.NotBV(s.t), s.k)
		}
		panic(fmt.Sprintf("symbolic unop %s", instr.Op))
	}
	return unopConcrete(instr, x)
}

func (i *interpreter) conv(fr *frame, tDst, tSrc types.Type, x value) value {
	utDst := tDst.Underlying()
	utSrc := tSrc.Underlying()
	switch xv := x.(type) {
	case *Sym:
		kd, ok := basicKindOf(tDst)
		if !ok || kindBits(kd) == 0 {
			if b, isB := utDst.(*types.Basic); isB && b.Kind() == types.String {
				// string(rune) of a symbolic rune: only ASCII-range supported via concretisation
				v := i.concreteInt(x, "string(rune)")
				return string(rune(v))
			}
			if b, isB := utDst.(*types.Basic); isB && (b.Kind() == types.Float64 || b.Kind() == types.Float32) {
				i.unsupported("conversion of symbolic integer to float")
			}
			i.unsupported("conversion of symbolic %v to %v", tSrc, tDst)
		}
		if xv.k == types.Bool {
			i.unsupported("conversion of symbolic bool")
		}
		return fromTerm(i.ps.pool.Resize(xv.t, kindSigned(xv.k), kindBits(kd)), kd)
	case sstring:
		switch d := utDst.(type) {
		case *types.Basic:
			if d.Kind() == types.String {
				return x
			}
		case *types.Slice:
			if eb, ok := d.Elem().Underlying().(*types.Basic); ok && eb.Kind() == types.Byte {
				return append([]value(nil), xv.b...)
			}
		}
		i.unsupported("conversion of symbolic-byte string to %v", tDst)
	case ostring:
		if d, ok := utDst.(*types.Basic); ok && d.Kind() == types.String {
			return x
		}
		i.unsupported("conversion of opaque string to %v", tDst)
	case []value:
		if s, ok := utSrc.(*types.Slice); ok {
			if eb, ok := s.Elem().Underlying().(*types.Basic); ok && eb.Kind() == types.Byte {
				if d, ok := utDst.(*types.Basic); ok && d.Kind() == types.String {
					return mkString(xv)
				}
			}
			if _, ok := utDst.(*types.Slice); ok {
				return x // conversion between slice types with identical underlying element types
			}
			if eb, ok := s.Elem().Underlying().(*types.Basic); ok && eb.Kind() == types.Rune {
				for _, e := range xv {
					if isSym(e) {
						i.unsupported("string([]rune) with symbolic runes")
					}
				}
			}
		}
	}
	return convConcrete(tDst, tSrc, x)
}

func (i *interpreter) boundsPanic(msg string) {
	panic(targetPanic{v: i.runtimeErr(msg)})
}

// slice returns x[lo:hi:max]. Symbolic bounds are concretised.
func (i *interpreter) slice(fr *frame, x, lo, hi, max value) value {
	var Len, Cap int
	switch x := x.(type) {
	case string:
		Len = len(x)
		Cap = Len
	case sstring:
		Len = len(x.b)
		Cap = Len
	case ostring:
		i.unsupported("slicing an opaque symbolic string")
	case []value:
		Len = len(x)
		Cap = cap(x)
	case *value: // *array
		if x == nil {
			panic(targetPanic{v: i.runtimeErr("invalid memory address or nil pointer dereference")})
		}
		a := (*x).(array)
		Len = len(a)
		Cap = cap(a)
	}
	l := int64(0)
	if lo != nil {
		l = i.concreteInt(lo, "slice low bound")
	}
	h := int64(Len)
	if hi != nil {
		h = i.concreteInt(hi, "slice high bound")
	}
	m := int64(Cap)
	if max != nil {
		m = i.concreteInt(max, "slice max bound")
	}
	if l < 0 || h < l || m < h || m > int64(Cap) {
		i.boundsPanic(fmt.Sprintf("slice bounds out of range [%d:%d:%d] with capacity %d", l, h, m, Cap))
	}
	switch x := x.(type) {
	case string:
		return x[l:h]
	case sstring:
		return mkString(x.b[l:h])
	case []value:
		return x[l:h:m]
	case *value: // *array
		a := (*x).(array)
		return []value(a)[l:h:m]
	}
	panic(fmt.Sprintf("slice: unexpected X type: %T", x))
}

// indexFor checks 0 <= idx < n (a solver obligation for symbolic idx) and
// returns a concrete index.
func (i *interpreter) indexFor(fr *frame, idx value, n int) int {
	if s, ok := idx.(*Sym); ok {
		i.symBoundsCheck(s, n)
		return int(i.concreteInt(idx, "index"))
	}
	k := asInt64(idx)
	if k < 0 || k >= int64(n) {
		i.boundsPanic(fmt.Sprintf("index out of range [%d] with length %d", k, n))
	}
	return int(k)
}

func (i *interpreter) symBoundsCheck(s *Sym, n int) {
	p := i.ps.pool
	w := p.Resize(s.t, kindSigned(s.k), 64)
	var inb *Term
	if kindSigned(s.k) {
		inb = p.And(p.CmpBV("bvsle", p.BV(64, 0), w), p.CmpBV("bvslt", w, p.BV(64, uint64(n))))
	} else {
		inb = p.CmpBV("bvult", w, p.BV(64, uint64(n)))
	}
	if !i.ps.branch(inb) {
		i.boundsPanic(fmt.Sprintf("index out of range [symbolic] with length %d", n))
	}
}

// indexValue implements x[idx] for arrays and strings (value context).
func (i *interpreter) indexValue(fr *frame, x, idx value, et types.Type) value {
	var elems []value
	switch x := x.(type) {
	case array:
		elems = x
	case string:
		if s, ok := idx.(*Sym); ok {
			b, _ := strBytes(x)
			return i.selectElem(s, b)
		}
		k := asInt64(idx)
		if k < 0 || k >= int64(len(x)) {
			i.boundsPanic(fmt.Sprintf("index out of range [%d] with length %d", k, len(x)))
		}
		return x[k]
	case sstring:
		elems = x.b
	case ostring:
		i.unsupported("indexing an opaque symbolic string")
	default:
		panic(fmt.Sprintf("unexpected x type in Index: %T", x))
	}
	if s, ok := idx.(*Sym); ok {
		return i.selectElem(s, elems)
	}
	k := asInt64(idx)
	if k < 0 || k >= int64(len(elems)) {
		i.boundsPanic(fmt.Sprintf("index out of range [%d] with length %d", k, len(elems)))
	}
	return elems[k]
}

// selectElem returns elems[idx] for symbolic idx: an ite chain for scalar
// elements, otherwise concretisation.
func (i *interpreter) selectElem(s *Sym, elems []value) value {
	if len(elems) < 256 || kindBits(s.k) > 8 {
		i.symBoundsCheck(s, len(elems))
	}
	scalar := len(elems) > 0 && len(elems) <= 512
	var k0 types.BasicKind
	for n, e := range elems {
		var k types.BasicKind
		switch e := e.(type) {
		case *Sym:
			k = e.k
		default:
			var ok bool
			k, ok = kindOfValue(e)
			if !ok {
				scalar = false
			}
		}
		if n == 0 {
			k0 = k
		} else if k != k0 {
			scalar = false
		}
		if !scalar {
			break
		}
	}
	if !scalar {
		return elems[i.concreteInt(s, "index")]
	}
	p := i.ps.pool
	bits := kindBits(s.k)
	res, _ := p.toTerm(elems[len(elems)-1])
	for n := len(elems) - 2; n >= 0; n-- {
		te, _ := p.toTerm(elems[n])
		res = p.Ite(p.Eq(s.t, p.BV(bits, uint64(n))), te, res)
	}
	return fromTerm(res, k0)
}

// mapKey turns a key into a concrete, hashable value.
func (i *interpreter) mapKey(fr *frame, k value) value {
	switch kv := k.(type) {
	case *Sym:
		v := i.ps.concretize(kv.t, "map key")
		if kv.k == types.Bool {
			return v != 0
		}
		if kindSigned(kv.k) {
			return concreteOfKind(kv.k, uint64(signExt(v, kindBits(kv.k))))
		}
		return concreteOfKind(kv.k, v)
	case sstring:
		b := make([]byte, len(kv.b))
		for n, e := range kv.b {
			b[n] = byte(i.concreteInt(e, "map key byte"))
		}
		return string(b)
	case ostring:
		i.unsupported("opaque symbolic string used as map key")
	case structure:
		out := make(structure, len(kv))
		for n, e := range kv {
			out[n] = i.mapKey(fr, e)
		}
		return out
	case array:
		out := make(array, len(kv))
		for n, e := range kv {
			out[n] = i.mapKey(fr, e)
		}
		return out
	case iface:
		if kv.t != nil {
			return iface{t: kv.t, v: i.mapKey(fr, kv.v)}
		}
	}
	return k
}

// lookup returns x[idx] where x is a map.
func (i *interpreter) lookup(fr *frame, instr *ssa.Lookup, x, idx value) value {
	m, ok := x.(*omap)
	if !ok {
		panic(fmt.Sprintf("unexpected x type in Lookup: %T", x))
	}
	if m != nil {
		i.accessObj(fr, &m.cell, false)
	}
	if m != nil && keyIsSymbolic(idx) {
		return i.lookupSym(fr, instr, m, idx)
	}
	v, found := m.lookup(i.mapKey(fr, idx))
	if !found {
		v = zero(instr.X.Type().Underlying().(*types.Map).Elem())
	}
	if instr.CommaOk {
		return tuple{v, found}
	}
	return v
}

type sstringIter struct {
	i  *interpreter
	fr *frame
	b  []value
	k  int
}

func (it *sstringIter) next() tuple {
	okv := make(tuple, 3)
	if it.k >= len(it.b) {
		okv[0] = false
		return okv
	}
	r, n := it.i.decodeRune(it.fr, it.b[it.k:])
	okv[0] = true
	okv[1] = it.k
	okv[2] = r
	it.k += n
	return okv
}

// decodeRune decodes the first rune of b (which may hold symbolic bytes) by
// running the real unicode/utf8.DecodeRuneInString symbolically; the width is
// concretised.
func (i *interpreter) decodeRune(fr *frame, b []value) (value, int) {
	allConcrete := true
	lim := len(b)
	if lim > 4 {
		lim = 4
	}
	for _, e := range b[:lim] {
		if isSym(e) {
			allConcrete = false
		}
	}
	if allConcrete {
		buf := make([]byte, lim)
		for k := range buf {
			buf[k] = b[k].(uint8)
		}
		r, n := utf8.DecodeRune(buf)
		return r, n
	}
	fn := i.w.funcByName("unicode/utf8", "DecodeRuneInString")
	if fn == nil || fn.Blocks == nil {
		i.unsupported("range over symbolic string needs unicode/utf8 loaded from source")
	}
	res := call(i, fr, token.NoPos, fn, []value{mkString(b)}).(tuple)
	n := int(i.concreteInt(res[1], "utf8 width"))
	return res[0], n
}

func (i *interpreter) rangeIter(fr *frame, x value, t types.Type) iter {
	switch x := x.(type) {
	case *omap:
		if x != nil {
			i.accessObj(fr, &x.cell, false)
		}
		if i.cfg.MapOrderFork && x != nil && x.n >= 2 && x.n <= 3 && !strings.Contains(i.posString(fr.fn.Pos(), fr.fn), "/zz_") {
			// Go leaves the iteration order of a map unspecified: every order of a
			// small map is a separate path
			var live []int
			for k := range x.keys {
				if x.alive[k] {
					live = append(live, k)
				}
			}
			perms := permutations(len(live))
			pm := perms[i.ps.choose(len(perms), "map iteration order")]
			order := make([]int, len(live))
			for a, b := range pm {
				order[a] = live[b]
			}
			return &mapIter{m: x, order: order}
		}
		return &mapIter{m: x}
	case string:
		return &stringIter{s: x}
	case sstring:
		return &sstringIter{i: i, fr: fr, b: x.b}
	case ostring:
		i.unsupported("range over opaque symbolic string")
	}
	panic(fmt.Sprintf("cannot range over %T", x))
}

func permutations(n int) [][]int {
	if n == 0 {
		return [][]int{{}}
	}
	var out [][]int
	for _, p := range permutations(n - 1) {
		for pos := 0; pos <= len(p); pos++ {
			q := append(append(append([]int{}, p[:pos]...), n-1), p[pos:]...)
			out = append(out, q)
		}
	}
	return out
}

// ---------------------------------------------------------------------------
// happens-before race analysis (shadow memory), only when cfg.Race

type shadowCell struct {
	wG   int
	wC   int
	wAt  string
	rVC  []int
	rAt  map[int]string
}

func (i *interpreter) access(fr *frame, addr *value, write bool) {
	if !i.cfg.Race || i.initing {
		return
	}
	i.raceAccess(fr, addr, write)
}

func (i *interpreter) accessObj(fr *frame, addr *value, write bool) {
	if !i.cfg.Race || i.initing {
		return
	}
	i.raceAccess(fr, addr, write)
}

func (i *interpreter) raceAccess(fr *frame, addr *value, write bool) {
	g := i.sched.cur
	if len(i.sched.gs) == 1 {
		return
	}
	c := i.shadow[addr]
	if c == nil {
		c = &shadowCell{wG: -1}
		i.shadow[addr] = c
	}
	clk := func(vc []int, g int) int {
		if g < len(vc) {
			return vc[g]
		}
		return 0
	}
	at := ""
	if fr != nil {
		at = fr.where()
	}
	if strings.Contains(at, "/zz_") {
		return // harness bookkeeping (ghost counters) is not part of the program under analysis
	}
	// conflict with last write?
	if c.wG >= 0 && c.wG != g.id && c.wC > clk(g.vc, c.wG) {
		i.raceReport(at, c.wAt, write, true)
	}
	if write {
		for og, oc := range c.rVC {
			if og != g.id && oc > clk(g.vc, og) {
				i.raceReport(at, c.rAt[og], true, false)
			}
		}
		c.wG, c.wC, c.wAt = g.id, clk(g.vc, g.id), at
		c.rVC = nil
		c.rAt = nil
	} else {
		for len(c.rVC) <= g.id {
			c.rVC = append(c.rVC, 0)
		}
		c.rVC[g.id] = clk(g.vc, g.id)
		if c.rAt == nil {
			c.rAt = map[int]string{}
		}
		c.rAt[g.id] = at
	}
}

func (i *interpreter) raceReport(at, other string, write, otherWrite bool) {
	k := func(w bool) string {
		if w {
			return "write"
		}
		return "read"
	}
	msg := fmt.Sprintf("data race: %s at %s unordered with %s at %s", k(write), at, k(otherWrite), other)
	key := "race|" + msg
	if i.hstate[key] != nil {
		return
	}
	i.hstate[key] = true
	i.ps.event("race", msg, at)
}

func keyIsSymbolic(k value) bool {
	switch k := k.(type) {
	case *Sym, sstring:
		return true
	case iface:
		return keyIsSymbolic(k.v)
	}
	return false
}

// lookupSym looks a symbolic scalar/string key up in a map with concrete keys
// without enumerating the key's values: an ite chain over the entries when the
// element type is scalar, otherwise one solver-decided branch per entry.
func (i *interpreter) lookupSym(fr *frame, instr *ssa.Lookup, m *omap, idx value) value {
	p := i.ps.pool
	mt := instr.X.Type().Underlying().(*types.Map)
	zeroV := zero(mt.Elem())
	type ent struct {
		eq *Term
		v  value
	}
	var ents []ent
	for k := range m.keys {
		if !m.alive[k] {
			continue
		}
		eq := i.eqTerm(mt.Key(), idx, m.keys[k])
		if eq.isFalse() {
			continue
		}
		ents = append(ents, ent{eq, m.vals[k]})
	}
	_, scalarElem := kindOfValue(zeroV)
	if scalarElem {
		ok := true
		for _, e := range ents {
			if _, isS := e.v.(*Sym); isS {
				continue
			}
			if _, isK := kindOfValue(e.v); !isK {
				ok = false
			}
		}
		if ok {
			zk, _ := kindOfValue(zeroV)
			res, _ := p.toTerm(zeroV)
			found := p.Bool(false)
			for n := len(ents) - 1; n >= 0; n-- {
				tv, _ := p.toTerm(ents[n].v)
				res = p.Ite(ents[n].eq, tv, res)
				found = p.Or(ents[n].eq, found)
			}
			v := fromTerm(res, zk)
			if instr.CommaOk {
				return tuple{v, i.boxBool(found)}
			}
			return v
		}
	}
	for _, e := range ents {
		if i.ps.branch(e.eq) {
			if instr.CommaOk {
				return tuple{e.v, true}
			}
			return e.v
		}
	}
	if instr.CommaOk {
		return tuple{zeroV, false}
	}
	return zeroV
}

// symRef is the address of elems[idx] for a symbolic idx (scalar elements only).
type symRef struct {
	elems []value
	idx   *Sym
}

func scalarElems(elems []value) bool {
	if len(elems) == 0 || len(elems) > 512 {
		return false
	}
	var k0 types.BasicKind
	for n, e := range elems {
		var k types.BasicKind
		if s, ok := e.(*Sym); ok {
			k = s.k
		} else if kk, ok := kindOfValue(e); ok {
			k = kk
		} else {
			return false
		}
		if n == 0 {
			k0 = k
		} else if k != k0 {
			return false
		}
	}
	return true
}

func (i *interpreter) storeSymRef(sr *symRef, v value) {
	p := i.ps.pool
	tv, k := p.toTerm(v)
	bits := kindBits(sr.idx.k)
	for n := range sr.elems {
		te, _ := p.toTerm(sr.elems[n])
		sr.elems[n] = fromTerm(p.Ite(p.Eq(sr.idx.t, p.BV(bits, uint64(n))), tv, te), k)
	}
}
