package interp

// Harness intrinsics: functions named verif* declared in harness files are
// intercepted by name; their Go bodies are only used by native replay.

import (
	"fmt"
	"go/types"
)

var harnessIntrinsics map[string]externalFn

func (i *interpreter) newInput(kind string, sort sortKind, k types.BasicKind) (*Term, value) {
	ps := i.ps
	name := fmt.Sprintf("in%d_%s", len(ps.inputs), kind)
	t := ps.pool.Var(name, sort)
	var v value
	switch sort {
	case sStr:
		v = ostring{t: t}
	default:
		v = &Sym{t: t, k: k}
	}
	ps.inputs = append(ps.inputs, Input{Name: name, Term: t, Kind: kind, Sym: v})
	return t, v
}

func termOfBool(i *interpreter, v value) *Term {
	switch b := v.(type) {
	case bool:
		return i.ps.pool.Bool(b)
	case *Sym:
		return b.t
	}
	panic(fmt.Sprintf("expected bool, got %T", v))
}

func init() {
	harnessIntrinsics = map[string]externalFn{
		"verifNative": func(fr *frame, a []value) value { return false },
		"verifBool": func(fr *frame, a []value) value {
			_, v := fr.i.newInput("bool", sBool, types.Bool)
			return v
		},
		"verifInt": func(fr *frame, a []value) value {
			_, v := fr.i.newInput("int", sBV64, types.Int)
			return v
		},
		"verifInt64": func(fr *frame, a []value) value {
			_, v := fr.i.newInput("int64", sBV64, types.Int64)
			return v
		},
		"verifInt32": func(fr *frame, a []value) value {
			_, v := fr.i.newInput("int32", sBV32, types.Int32)
			return v
		},
		"verifUint32": func(fr *frame, a []value) value {
			_, v := fr.i.newInput("uint", sBV32, types.Uint32)
			return v
		},
		"verifByte": func(fr *frame, a []value) value {
			_, v := fr.i.newInput("byte", sBV8, types.Uint8)
			return v
		},
		// verifIntRange(lo, hi) int: lo <= x <= hi
		"verifIntRange": func(fr *frame, a []value) value {
			i := fr.i
			t, v := i.newInput("int", sBV64, types.Int)
			lo, hi := asInt64(a[0]), asInt64(a[1])
			p := i.ps.pool
			i.ps.assertTerm(p.CmpBV("bvsle", p.BV(64, uint64(lo)), t))
			i.ps.assertTerm(p.CmpBV("bvsle", t, p.BV(64, uint64(hi))))
			return v
		},
		// verifString(n) string: concrete length n, symbolic bytes
		"verifString": func(fr *frame, a []value) value {
			i := fr.i
			n := int(i.concreteInt(a[0], "verifString length"))
			b := make([]value, n)
			for k := range b {
				_, b[k] = i.newInput("byte", sBV8, types.Uint8)
			}
			if n == 0 {
				return ""
			}
			return sstring{b: b}
		},
		"verifOpaqueString": func(fr *frame, a []value) value {
			_, v := fr.i.newInput("str", sStr, 0)
			return v
		},
		"verifChoice": func(fr *frame, a []value) value {
			i := fr.i
			n := int(asInt64(a[0]))
			c := i.ps.choose(n, "verifChoice")
			name := fmt.Sprintf("in%d_choice", len(i.ps.inputs))
			i.ps.inputs = append(i.ps.inputs, Input{Name: name, Term: i.ps.pool.BV(64, uint64(c)), Kind: "choice"})
			return c
		},
		"verifAssume": func(fr *frame, a []value) value {
			i := fr.i
			c := termOfBool(i, a[0])
			if c.isTrue() {
				return nil
			}
			if c.isFalse() {
				panic(abortPath{"assumed", "assumption false"})
			}
			if i.ps.known[c] {
				return nil
			}
			i.ps.nSolverDecisions++
			switch i.ps.solver.CheckWith(c) {
			case resUnsat:
				panic(abortPath{"assumed", "assumption infeasible"})
			case resUnknown:
				i.ps.inconclusive = append(i.ps.inconclusive, "solver unknown on assumption")
			}
			i.ps.assertTerm(c)
			return nil
		},
		"verifAssert": func(fr *frame, a []value) value {
			i := fr.i
			c := termOfBool(i, a[0])
			msg, _ := a[1].(string)
			where := ""
			if fr.caller != nil {
				where = fr.caller.where()
			}
			if c.isFalse() {
				i.ps.event("assert", msg, where)
				panic(abortPath{"stop", "assertion failed"})
			}
			i.ps.check(c, "assert", msg, where)
			return nil
		},
		"verifFail": func(fr *frame, a []value) value {
			msg, _ := a[0].(string)
			where := ""
			if fr.caller != nil {
				where = fr.caller.where()
			}
			fr.i.ps.event("assert", msg, where)
			panic(abortPath{"stop", "assertion failed"})
		},
		"verifReach": func(fr *frame, a []value) value {
			fr.i.ps.reached[a[0].(string)] = true
			return nil
		},
		"verifCover": func(fr *frame, a []value) value {
			fr.i.ps.covers[a[0].(string)]++
			return nil
		},
		// verifPopDialect(conn, name): gives a model *pop.Connection a dialect
		// whose Name() is name (pop's dialect interface cannot be implemented outside pop)
		"verifPopDialect": func(fr *frame, a []value) value {
			itf := a[0].(iface)
			st := itf.t.(*types.Pointer).Elem().Underlying().(*types.Struct)
			name := a[1].(string)
			for k := 0; k < st.NumFields(); k++ {
				if st.Field(k).Name() == "Dialect" {
					nt := &nativeType{name: "pop.dialect(" + name + ")", call: func(i *interpreter, fr *frame, method string, args []value) value {
						if method == "Name" {
							return name
						}
						i.unsupported("pop dialect method %s", method)
						return nil
					}}
					(*itf.v.(*value)).(structure)[k] = iface{t: nt, v: &nativeObj{kind: "dialect"}}
				}
			}
			return nil
		},
		"verifTag": func(fr *frame, a []value) value {
			fr.i.ps.tag = fr.i.concreteString(a[0], "tag")
			return nil
		},
		// verifReplayAs(harness): native replay of violations found from here on runs this harness
		"verifReplayAs": func(fr *frame, a []value) value {
			fr.i.ps.replayHarness = a[0].(string)
			return nil
		},
		// verifReplayParam(name, v): parameter handed to the native replay harness
		"verifReplayParam": func(fr *frame, a []value) value {
			if fr.i.ps.replayParams == nil {
				fr.i.ps.replayParams = map[string]int64{}
			}
			fr.i.ps.replayParams[a[0].(string)] = fr.i.concreteInt(a[1], "replay parameter")
			return nil
		},
		"verifNote": func(fr *frame, a []value) value {
			s := ""
			if itf, ok := a[0].(iface); ok {
				a = []value{itf.v}
			}
			switch x := a[0].(type) {
			case string:
				s = x
			default:
				s = toString(x)
			}
			if len(fr.i.ps.notes) < 64 {
				fr.i.ps.notes = append(fr.i.ps.notes, s)
			}
			return nil
		},
		"verifParam": func(fr *frame, a []value) value {
			name := a[0].(string)
			v, ok := fr.i.cfg.Params[name]
			if !ok {
				fr.i.unsupported("harness parameter %q not set", name)
			}
			return int(v)
		},
		"verifParamOr": func(fr *frame, a []value) value {
			if v, ok := fr.i.cfg.Params[a[0].(string)]; ok {
				return int(v)
			}
			return a[1]
		},
		// verifQuiesce() int: run all other goroutines until blocked/done; number still alive
		"verifQuiesce": func(fr *frame, a []value) value {
			alive := fr.i.sched.quiesce()
			for _, s := range alive {
				if len(fr.i.ps.notes) < 64 {
					fr.i.ps.notes = append(fr.i.ps.notes, "alive: "+s)
				}
			}
			return len(alive)
		},
		// verifSetField(ptr, i, v): write field i of *ptr (also unexported ones)
		"verifSetField": func(fr *frame, a []value) value {
			p := a[0].(iface).v.(*value)
			st := (*p).(structure)
			v := a[2]
			if itf, ok := v.(iface); ok {
				v = itf.v
			}
			st[int(asInt64(a[1]))] = v
			return nil
		},
		"verifGoroutineMark": func(fr *frame, a []value) value { return nil },
		"verifGoroutines": func(fr *frame, a []value) value {
			n := 0
			for _, g := range fr.i.sched.gs {
				if !g.done {
					n++
				}
			}
			return n
		},
		"verifAnd": func(fr *frame, a []value) value {
			i := fr.i
			return i.boxBool(i.ps.pool.And(termOfBool(i, a[0]), termOfBool(i, a[1])))
		},
		"verifOr": func(fr *frame, a []value) value {
			i := fr.i
			return i.boxBool(i.ps.pool.Or(termOfBool(i, a[0]), termOfBool(i, a[1])))
		},
		"verifNot": func(fr *frame, a []value) value {
			i := fr.i
			return i.boxBool(i.ps.pool.Not(termOfBool(i, a[0])))
		},
		"verifIte": func(fr *frame, a []value) value {
			i := fr.i
			c := termOfBool(i, a[0])
			tx, k := i.ps.pool.toTerm(a[1])
			ty, _ := i.ps.pool.toTerm(a[2])
			return fromTerm(i.ps.pool.Ite(c, tx, ty), k)
		},
		"verifIteBool": func(fr *frame, a []value) value {
			i := fr.i
			return i.boxBool(i.ps.pool.Ite(termOfBool(i, a[0]), termOfBool(i, a[1]), termOfBool(i, a[2])))
		},
		// verifEq(a, b) bool for ints without branching
		"verifEq": func(fr *frame, a []value) value {
			i := fr.i
			tx, _ := i.ps.pool.toTerm(a[0])
			ty, _ := i.ps.pool.toTerm(a[1])
			return i.boxBool(i.ps.pool.Eq(tx, ty))
		},
		"verifStrEq": func(fr *frame, a []value) value {
			i := fr.i
			return i.boxBool(i.strEq(a[0], a[1]))
		},
		"verifLess": func(fr *frame, a []value) value {
			i := fr.i
			tx, _ := i.ps.pool.toTerm(a[0])
			ty, _ := i.ps.pool.toTerm(a[1])
			return i.boxBool(i.ps.pool.CmpBV("bvslt", tx, ty))
		},
		"verifConcretize": func(fr *frame, a []value) value {
			return int(fr.i.concreteInt(a[0], "verifConcretize"))
		},
		"verifConcretizeBool": func(fr *frame, a []value) value {
			switch b := a[0].(type) {
			case bool:
				return b
			case *Sym:
				return fr.i.ps.branch(b.t)
			}
			return false
		},
		"verifIsSymbolic": func(fr *frame, a []value) value { return isSymbolic(a[0]) },
		"verifSteps":      func(fr *frame, a []value) value { return int(fr.i.steps) },
		"verifYield":      func(fr *frame, a []value) value { fr.i.sched.point("yield"); return nil },
		"verifSetGhost": func(fr *frame, a []value) value {
			fr.i.ps.ghost[a[0].(string)] = asInt64(a[1])
			return nil
		},
	}
}
