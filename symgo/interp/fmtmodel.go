package interp

// A model of fmt.Sprintf / fmt.Errorf for the verbs keto uses in messages.
// Concrete and symbolic-byte strings are rendered faithfully for %s %v %q %d
// %x %t %T %c; anything else falls back to a fresh opaque string.

import (
	"fmt"
	"go/token"
	"go/types"
	"strconv"
	"strings"
)

type fmtErr struct {
	msg     value
	wrapped iface
	code    int64 // grpc status code when built by status.Errorf
}

var fmtErrorType *nativeType

func init() {
	fmtErrorType = &nativeType{name: "fmt.wrapError", call: func(i *interpreter, fr *frame, method string, args []value) value {
		e := args[0].(*nativeObj).data.(*fmtErr)
		switch method {
		case "Error":
			return e.msg
		case "Unwrap":
			return e.wrapped
		}
		i.unsupported("fmt error method %s", method)
		return nil
	}}
}

func (i *interpreter) errorf(fr *frame, format value, args []value) value {
	msg := i.sprintf(fr, format, args)
	f, _ := format.(string)
	if k := strings.Index(f, "%w"); k >= 0 {
		// find which argument %w consumes
		n := 0
		for j := 0; j < k; j++ {
			if f[j] == '%' {
				if j+1 < len(f) && f[j+1] == '%' {
					j++
					continue
				}
				n++
			}
		}
		if n < len(args) {
			if w, ok := args[n].(iface); ok && w.t != nil {
				return iface{t: fmtErrorType, v: &nativeObj{kind: "fmtErr", data: &fmtErr{msg: msg, wrapped: w}}}
			}
		}
	}
	if s, ok := msg.(string); ok {
		return i.newError(s)
	}
	return iface{t: fmtErrorType, v: &nativeObj{kind: "fmtErr", data: &fmtErr{msg: msg}}}
}

func (i *interpreter) freshOpaque(prefix string) value {
	n, _ := i.hstate["fresh.opaque"].(int)
	n++
	i.hstate["fresh.opaque"] = n
	return ostring{t: i.ps.pool.Var(fmt.Sprintf("%s_%d", prefix, n), sStr)}
}

func (i *interpreter) sprintf(fr *frame, format value, args []value) value {
	f, ok := format.(string)
	if !ok {
		return i.freshOpaque("fmt")
	}
	var out []value
	opaque := false
	emit := func(s string) {
		for k := 0; k < len(s); k++ {
			out = append(out, s[k])
		}
	}
	argi := 0
	for k := 0; k < len(f); k++ {
		c := f[k]
		if c != '%' {
			out = append(out, c)
			continue
		}
		k++
		if k >= len(f) {
			emit("%!(NOVERB)")
			break
		}
		// flags / width / precision
		start := k
		for k < len(f) && strings.IndexByte("+-# 0123456789.", f[k]) >= 0 {
			k++
		}
		if k >= len(f) {
			emit("%!(NOVERB)")
			break
		}
		flags := f[start:k]
		verb := f[k]
		if verb == '%' {
			out = append(out, '%')
			continue
		}
		if argi >= len(args) {
			emit("%!" + string(verb) + "(MISSING)")
			continue
		}
		a := args[argi]
		argi++
		r := i.fmtArg(fr, verb, flags, a)
		switch r := r.(type) {
		case string:
			emit(r)
		case sstring:
			out = append(out, r.b...)
		default:
			opaque = true
		}
	}
	if opaque {
		return i.freshOpaque("fmt")
	}
	return mkString(out)
}

// fmtArg renders one operand; returns string, sstring or ostring.
func (i *interpreter) fmtArg(fr *frame, verb byte, flags string, a value) value {
	itf, isI := a.(iface)
	var v value = a
	var t types.Type
	if isI {
		if itf.t == nil {
			if verb == 'T' {
				return "<nil>"
			}
			return "<nil>"
		}
		v, t = itf.v, itf.t
	}
	if verb == 'T' {
		if t != nil {
			return t.String()
		}
		return fmt.Sprintf("%T", v)
	}
	// error / Stringer
	if t != nil && (verb == 's' || verb == 'v' || verb == 'q' || verb == 'w') {
		if nt, ok := t.(*nativeType); ok {
			if nt == fmtErrorType {
				return i.quoteIf(verb, v.(*nativeObj).data.(*fmtErr).msg)
			}
			return "<" + nt.name + ">"
		}
		for _, name := range []string{"Error", "String"} {
			if m := i.methodOf(t, name); m != nil && m.Signature.Params().Len() == 0 && m.Signature.Results().Len() == 1 {
				if b, ok := m.Signature.Results().At(0).Type().Underlying().(*types.Basic); ok && b.Kind() == types.String {
					// nil pointer receivers with pointer methods would panic in Go's fmt as "<nil>"
					if p, isP := v.(*value); isP && p == nil {
						return "<nil>"
					}
					r := call(i, fr, token.NoPos, m, []value{v})
					return i.quoteIf(verb, r)
				}
			}
		}
	}
	switch x := v.(type) {
	case string:
		return i.quoteIf(verb, x)
	case sstring:
		return i.quoteIf(verb, x)
	case ostring:
		return x
	case *Sym:
		return ostring{}
	case bool:
		return strconv.FormatBool(x)
	case int, int8, int16, int32, int64:
		n := asInt64(x)
		switch verb {
		case 'x':
			return strconv.FormatInt(n, 16)
		case 'c':
			return string(rune(n))
		case 'q':
			return strconv.QuoteRune(rune(n))
		}
		return strconv.FormatInt(n, 10)
	case uint, uint8, uint16, uint32, uint64, uintptr:
		n := uint64(asInt64(x))
		switch verb {
		case 'x':
			return strconv.FormatUint(n, 16)
		case 'c':
			return string(rune(n))
		}
		return strconv.FormatUint(n, 10)
	case float64:
		return strconv.FormatFloat(x, 'g', -1, 64)
	case *value:
		if x == nil {
			return "<nil>"
		}
		return "0xc000000000"
	case []value:
		// []string / []byte etc.
		var parts []string
		for _, e := range x {
			r := i.fmtArg(fr, 'v', "", e)
			s, ok := r.(string)
			if !ok {
				return ostring{}
			}
			parts = append(parts, s)
		}
		return "[" + strings.Join(parts, " ") + "]"
	case structure, array:
		return toString(x)
	}
	return toString(v)
}

func (i *interpreter) quoteIf(verb byte, s value) value {
	if verb != 'q' {
		return s
	}
	switch x := s.(type) {
	case string:
		return strconv.Quote(x)
	case sstring:
		// quoting depends on the bytes: not modelled
		return ostring{}
	}
	return s
}
