package interp

// One long-lived SMT solver process per worker, driven incrementally over
// stdin/stdout. Any "(error" line makes the query inconclusive.

import (
	"bufio"
	"fmt"
	"io"
	"os"
	"os/exec"
	"strconv"
	"strings"
	"time"
)

type satResult int

const (
	resUnsat satResult = iota
	resSat
	resUnknown
)

func (r satResult) String() string {
	return [...]string{"unsat", "sat", "unknown"}[r]
}

type Solver struct {
	bin     string
	cmd     *exec.Cmd
	in      io.WriteCloser
	w       *bufio.Writer
	out     *bufio.Reader
	Queries int
	Time    time.Duration
	Errors  int
	log     io.Writer // optional transcript
	timeout int       // ms per query
	session int
	defd    map[*Term]int // term -> session in which it was defined
	lastErr string
}

func NewSolver(bin string, timeoutMs int) (*Solver, error) {
	s := &Solver{bin: bin, timeout: timeoutMs, defd: make(map[*Term]int)}
	if err := s.start(); err != nil {
		return nil, err
	}
	return s, nil
}

func (s *Solver) start() error {
	var args []string
	switch {
	case strings.Contains(s.bin, "cvc5"):
		args = []string{"--incremental", "--lang=smt2", fmt.Sprintf("--tlimit-per=%d", s.timeout)}
	default:
		args = []string{"-in", "-smt2"}
	}
	s.cmd = exec.Command(s.bin, args...)
	in, err := s.cmd.StdinPipe()
	if err != nil {
		return err
	}
	out, err := s.cmd.StdoutPipe()
	if err != nil {
		return err
	}
	s.cmd.Stderr = nil
	if err := s.cmd.Start(); err != nil {
		return err
	}
	s.in = in
	s.w = bufio.NewWriterSize(in, 1<<16)
	s.out = bufio.NewReaderSize(out, 1<<16)
	if d := os.Getenv("VERIF_SMTLOG"); d != "" && s.log == nil {
		f, _ := os.Create(fmt.Sprintf("%s/solver-%d.smt2", d, s.cmd.Process.Pid))
		s.log = f
	}
	s.preamble()
	return nil
}

func (s *Solver) preamble() {
	s.send("(set-option :print-success false)")
	if strings.Contains(s.bin, "cvc5") {
		s.send("(set-logic ALL)")
		s.send("(set-option :produce-models true)")
	} else {
		s.send(fmt.Sprintf("(set-option :timeout %d)", s.timeout))
		s.send("(set-option :produce-models true)")
	}
}

func (s *Solver) Close() {
	if s.cmd != nil {
		s.in.Close()
		s.cmd.Process.Kill()
		s.cmd.Wait()
		s.cmd = nil
	}
}

func (s *Solver) send(line string) {
	if s.log != nil {
		fmt.Fprintln(s.log, line)
	}
	s.w.WriteString(line)
	s.w.WriteByte('\n')
}

// Reset starts a fresh session (all declarations and assertions dropped).
func (s *Solver) Reset() {
	s.send("(reset)")
	s.preamble()
	s.session++
	s.defd = make(map[*Term]int)
}

// CheckModel checks the current assertions plus extra and, when satisfiable,
// returns the model values of want.
func (s *Solver) CheckModel(extra []*Term, want []*Term) (satResult, []uint64) {
	for _, e := range extra {
		s.define(e)
	}
	for _, w := range want {
		s.define(w)
	}
	s.Push()
	for _, e := range extra {
		s.send("(assert " + s.ref(e) + ")")
	}
	r := s.Check()
	var vals []uint64
	if r == resSat {
		var ok bool
		vals, ok = s.Values(want)
		if !ok {
			r = resUnknown
		}
	}
	s.Pop()
	return r, vals
}

func (s *Solver) ref(t *Term) string {
	switch t.op {
	case "const", "var":
		return t.smtBody(nil)
	}
	return "t" + strconv.Itoa(t.id)
}

// define makes sure t (and everything below it) is known to the solver in the
// current session.
func (s *Solver) define(t *Term) {
	if s.defd[t] == s.session+1 {
		return
	}
	// iterative post-order to avoid deep recursion
	type item struct {
		t    *Term
		done bool
	}
	stack := []item{{t, false}}
	for len(stack) > 0 {
		it := stack[len(stack)-1]
		stack = stack[:len(stack)-1]
		if s.defd[it.t] == s.session+1 {
			continue
		}
		if it.done || len(it.t.args) == 0 {
			s.defd[it.t] = s.session + 1
			switch it.t.op {
			case "const":
			case "var":
				s.send(fmt.Sprintf("(declare-const %s %s)", it.t.name, it.t.sort.smt()))
			default:
				s.send(fmt.Sprintf("(define-fun t%d () %s %s)", it.t.id, it.t.sort.smt(), it.t.smtBody(s.ref)))
			}
			continue
		}
		stack = append(stack, item{it.t, true})
		for _, a := range it.t.args {
			if s.defd[a] != s.session+1 {
				stack = append(stack, item{a, false})
			}
		}
	}
}

func (s *Solver) Assert(t *Term) {
	s.define(t)
	s.send("(assert " + s.ref(t) + ")")
}

func (s *Solver) Push() { s.send("(push 1)") }
func (s *Solver) Pop()  { s.send("(pop 1)") }

func (s *Solver) readLine() string {
	s.w.Flush()
	line, err := s.out.ReadString('\n')
	if err != nil {
		return "(error \"solver died: " + err.Error() + "\")"
	}
	return strings.TrimSpace(line)
}

// Check runs check-sat under the current assertions.
func (s *Solver) Check() satResult {
	t0 := time.Now()
	s.Queries++
	s.send("(check-sat)")
	for {
		line := s.readLine()
		if s.log != nil {
			fmt.Fprintln(s.log, "; ->", line)
		}
		if s.log != nil && time.Since(t0) > 500*time.Millisecond {
			fmt.Fprintf(s.log, "; SLOW %.2fs\n", time.Since(t0).Seconds())
		}
		switch {
		case line == "sat":
			s.Time += time.Since(t0)
			return resSat
		case line == "unsat":
			s.Time += time.Since(t0)
			return resUnsat
		case line == "unknown", strings.HasPrefix(line, "timeout"):
			s.Time += time.Since(t0)
			return resUnknown
		case strings.HasPrefix(line, "(error"):
			s.Errors++
			s.lastErr = line
			if strings.Contains(line, "solver died") {
				s.Time += time.Since(t0)
				// restart to keep going; the query is inconclusive
				s.Close()
				s.start()
				s.session++
				return resUnknown
			}
			// keep reading: z3 still prints the check-sat answer afterwards,
			// but whatever it says the query is inconclusive.
			for {
				l2 := s.readLine()
				if l2 == "sat" || l2 == "unsat" || l2 == "unknown" || strings.Contains(l2, "solver died") {
					break
				}
			}
			s.Time += time.Since(t0)
			return resUnknown
		case line == "":
			continue
		default:
			// unexpected chatter; ignore
		}
	}
}

// CheckWith checks satisfiability of the current assertions plus extra.
func (s *Solver) CheckWith(extra ...*Term) satResult {
	for _, e := range extra {
		s.define(e)
	}
	s.Push()
	for _, e := range extra {
		s.send("(assert " + s.ref(e) + ")")
	}
	r := s.Check()
	s.Pop()
	return r
}

// readSexp reads one balanced s-expression from the solver output.
func (s *Solver) readSexp() string {
	s.w.Flush()
	var sb strings.Builder
	depth := 0
	started := false
	for {
		c, err := s.out.ReadByte()
		if err != nil {
			return sb.String()
		}
		if !started {
			if c == ' ' || c == '\n' || c == '\r' || c == '\t' {
				continue
			}
			started = true
			if c != '(' {
				// an atom: read to end of line
				sb.WriteByte(c)
				rest, _ := s.out.ReadString('\n')
				sb.WriteString(strings.TrimSpace(rest))
				return sb.String()
			}
		}
		sb.WriteByte(c)
		if c == '(' {
			depth++
		} else if c == ')' {
			depth--
			if depth == 0 {
				return sb.String()
			}
		} else if c == '"' {
			for {
				c2, err := s.out.ReadByte()
				if err != nil {
					return sb.String()
				}
				sb.WriteByte(c2)
				if c2 == '"' {
					break
				}
			}
		}
	}
}

// Values returns the model values of the given terms after a sat answer
// obtained with the same assertions still in place (call inside the push).
func (s *Solver) Values(ts []*Term) ([]uint64, bool) {
	if len(ts) == 0 {
		return nil, true
	}
	var sb strings.Builder
	sb.WriteString("(get-value (")
	for _, t := range ts {
		s.define(t)
		sb.WriteString(s.ref(t))
		sb.WriteByte(' ')
	}
	sb.WriteString("))")
	s.send(sb.String())
	resp := s.readSexp()
	if s.log != nil {
		fmt.Fprintln(s.log, "; ->", resp)
	}
	if strings.HasPrefix(resp, "(error") {
		s.Errors++
		s.lastErr = resp
		return nil, false
	}
	vals := parseValues(resp)
	if len(vals) != len(ts) {
		s.lastErr = "get-value parse: " + resp
		return nil, false
	}
	return vals, true
}

// parseValues extracts the value part of each (name value) pair.
func parseValues(resp string) []uint64 {
	var out []uint64
	// tokenise
	i := 0
	n := len(resp)
	depth := 0
	var pairTokens []string
	flush := func() {
		if len(pairTokens) >= 2 {
			out = append(out, parseVal(pairTokens[1:]))
		}
		pairTokens = nil
	}
	for i < n {
		c := resp[i]
		switch {
		case c == '(':
			depth++
			if depth > 2 {
				pairTokens = append(pairTokens, "(")
			}
			i++
		case c == ')':
			if depth > 2 {
				pairTokens = append(pairTokens, ")")
			}
			if depth == 2 {
				flush()
			}
			depth--
			i++
		case c == ' ' || c == '\n' || c == '\t' || c == '\r':
			i++
		default:
			j := i
			for j < n && !strings.ContainsRune("() \n\t\r", rune(resp[j])) {
				j++
			}
			if depth >= 2 {
				pairTokens = append(pairTokens, resp[i:j])
			}
			i = j
		}
	}
	return out
}

func parseVal(toks []string) uint64 {
	if len(toks) == 1 {
		t := toks[0]
		switch {
		case t == "true":
			return 1
		case t == "false":
			return 0
		case strings.HasPrefix(t, "#x"):
			v, _ := strconv.ParseUint(t[2:], 16, 64)
			return v
		case strings.HasPrefix(t, "#b"):
			v, _ := strconv.ParseUint(t[2:], 2, 64)
			return v
		default:
			v, err := strconv.ParseInt(t, 10, 64)
			if err == nil {
				return uint64(v)
			}
		}
		return 0
	}
	// (- 5)  or (_ bv5 8)
	if len(toks) >= 4 && toks[0] == "(" && toks[1] == "-" {
		v, _ := strconv.ParseInt(toks[2], 10, 64)
		return uint64(-v)
	}
	if len(toks) >= 5 && toks[0] == "(" && toks[1] == "_" && strings.HasPrefix(toks[2], "bv") {
		v, _ := strconv.ParseUint(toks[2][2:], 10, 64)
		return v
	}
	return 0
}
