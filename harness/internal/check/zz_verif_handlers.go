//go:build verif

package check

// C08 / C13 / C17 (check API): the real REST and gRPC check handlers with
//   - the engine core summarised: (*Engine).CheckRelationTuple is overridden by
//     verifChk, an "uninterpreted function" that returns one fresh symbolic
//     (membership, error) per distinct argument tuple;
//   - JSON decoding replaced by "an arbitrary value of the static type";
//   - a recording MappingManager / Manager (any write is a C17 violation);
//   - a capturing herodot.Writer.
// Natively (replay) the same code runs against the real engine on top of
// small fakes, which is enough to reproduce crashes and status codes that do
// not depend on the decision.

import (
	"context"
	"encoding/json"
	stderrors "errors"
	"net/http"
	"net/url"

	"github.com/gofrs/uuid"
	"github.com/ory/herodot"
	"github.com/ory/x/configx"
	"github.com/ory/x/logrusx"
	"github.com/ory/x/otelx"
	"github.com/spf13/pflag"

	"github.com/ory/keto/internal/check/checkgroup"
	"github.com/ory/keto/internal/driver/config"
	"github.com/ory/keto/internal/namespace"
	"github.com/ory/keto/internal/persistence"
	"github.com/ory/keto/internal/relationtuple"
	"github.com/ory/keto/internal/x"
	"github.com/ory/keto/ketoapi"
	rts "github.com/ory/keto/proto/ory/keto/relation_tuples/v1alpha2"
)

// ---- recording storage stubs ----------------------------------------------

type verifMapping struct {
	strs   []string
	ids    []uuid.UUID
	writes int
}

func (m *verifMapping) idFor(s string) uuid.UUID {
	for i := range m.strs {
		if verifConcretizeBool(verifStrEq(m.strs[i], s)) {
			return m.ids[i]
		}
	}
	var u uuid.UUID
	u[0] = 0xAB
	u[15] = byte(len(m.strs) + 1)
	m.strs = append(m.strs, s)
	m.ids = append(m.ids, u)
	return u
}
func (m *verifMapping) MapStringsToUUIDs(ctx context.Context, s ...string) ([]uuid.UUID, error) {
	m.writes++
	return m.MapStringsToUUIDsReadOnly(ctx, s...)
}
func (m *verifMapping) MapStringsToUUIDsReadOnly(ctx context.Context, s ...string) ([]uuid.UUID, error) {
	out := make([]uuid.UUID, len(s))
	for i := range s {
		out[i] = m.idFor(s[i])
	}
	return out, nil
}
func (m *verifMapping) MapUUIDsToStrings(ctx context.Context, u ...uuid.UUID) ([]string, error) {
	out := make([]string, len(u))
	for i := range u {
		for j := range m.ids {
			if m.ids[j] == u[i] {
				out[i] = m.strs[j]
			}
		}
	}
	return out, nil
}

type verifManager struct{ writes int }

func (m *verifManager) GetRelationTuples(ctx context.Context, q *relationtuple.RelationQuery, o ...x.PaginationOptionSetter) ([]*relationtuple.RelationTuple, string, error) {
	return nil, "", nil
}
func (m *verifManager) ExistsRelationTuples(ctx context.Context, q *relationtuple.RelationQuery) (bool, error) {
	return false, nil
}
func (m *verifManager) WriteRelationTuples(ctx context.Context, rs ...*relationtuple.RelationTuple) error {
	m.writes++
	return nil
}
func (m *verifManager) DeleteRelationTuples(ctx context.Context, rs ...*relationtuple.RelationTuple) error {
	m.writes++
	return nil
}
func (m *verifManager) DeleteAllRelationTuples(ctx context.Context, q *relationtuple.RelationQuery) error {
	m.writes++
	return nil
}
func (m *verifManager) TransactRelationTuples(ctx context.Context, ins []*relationtuple.RelationTuple, del []*relationtuple.RelationTuple) error {
	m.writes++
	return nil
}
func (m *verifManager) TraverseSubjectSetExpansion(ctx context.Context, t *relationtuple.RelationTuple) ([]*relationtuple.TraversalResult, error) {
	return nil, nil
}
func (m *verifManager) TraverseSubjectSetRewrite(ctx context.Context, t *relationtuple.RelationTuple, c []string) ([]*relationtuple.TraversalResult, error) {
	return nil, nil
}

// ---- capturing writer -------------------------------------------------------

type verifWriter struct {
	code    int
	payload interface{}
	err     error
	calls   int
}

func (w *verifWriter) Write(_ http.ResponseWriter, _ *http.Request, e interface{}, _ ...herodot.EncoderOptions) {
	w.calls++
	w.code, w.payload = 200, e
}
func (w *verifWriter) WriteCode(_ http.ResponseWriter, _ *http.Request, code int, e interface{}, _ ...herodot.EncoderOptions) {
	w.calls++
	w.code, w.payload = code, e
}
func (w *verifWriter) WriteCreated(_ http.ResponseWriter, _ *http.Request, _ string, e interface{}) {
	w.calls++
	w.code, w.payload = 201, e
}
func (w *verifWriter) WriteError(_ http.ResponseWriter, _ *http.Request, err error, _ ...herodot.Option) {
	w.calls++
	w.err = err
	w.code = verifStatusOf(err)
}
func (w *verifWriter) WriteErrorCode(_ http.ResponseWriter, _ *http.Request, code int, err error, _ ...herodot.Option) {
	w.calls++
	w.code, w.err = code, err
}

// verifStatusOf is herodot's rule: the status code of the first error in the
// chain that carries one, else 500.
func verifStatusOf(err error) int {
	if c := herodot.StatusCodeCarrier(nil); stderrors.As(err, &c) {
		if c.StatusCode() == 0 {
			return 500
		}
		return c.StatusCode()
	}
	return 500
}

// ---- dependencies -------------------------------------------------------------

type verifDeps struct {
	eng     *Engine
	mgr     *verifManager
	mm      *verifMapping
	wr      *verifWriter
	cfg     *config.Config
	log     *logrusx.Logger
	tr      *otelx.Tracer
	mapper  *relationtuple.Mapper
	roMap   *relationtuple.Mapper
	rwUsed  int // Mapper() (the writing one) handed out
}

func (d *verifDeps) PermissionEngine() *Engine                     { return d.eng }
func (d *verifDeps) RelationTupleManager() relationtuple.Manager   { return d.mgr }
func (d *verifDeps) MappingManager() relationtuple.MappingManager  { return d.mm }
func (d *verifDeps) Mapper() *relationtuple.Mapper                 { d.rwUsed++; return d.mapper }
func (d *verifDeps) ReadOnlyMapper() *relationtuple.Mapper         { return d.roMap }
func (d *verifDeps) Logger() *logrusx.Logger                       { return d.log }
func (d *verifDeps) Writer() herodot.Writer                        { return d.wr }
func (d *verifDeps) Config(context.Context) *config.Config         { return d.cfg }
func (d *verifDeps) Persister() persistence.Persister              { return nil }
func (d *verifDeps) Traverser() relationtuple.Traverser            { return d.mgr }
func (d *verifDeps) Tracer(context.Context) *otelx.Tracer          { return d.tr }
func (d *verifDeps) NetworkID(context.Context) uuid.UUID           { return uuid.Nil }

var verifKnownNamespaces = []*namespace.Namespace{{Name: "N"}, {Name: "M"}}

// configuration overrides (symbolic runs)
func verifHCfgNamespaceManager(c *config.Config) (namespace.Manager, error) {
	return config.NewMemoryNamespaceManager(verifKnownNamespaces...), nil
}
func verifHCfgMaxReadDepth(c *config.Config) int   { return 5 }
func verifHCfgMaxReadWidth(c *config.Config) int   { return 100 }
func verifHCfgStrictMode(c *config.Config) bool    { return false }
func verifHCfgBatchLimit(c *config.Config) int     { return 2 }
func verifHCfgMaxBatchSize(c *config.Config) int   { return verifMaxBatch }

var verifMaxBatch = 1

func verifNewDeps() *verifDeps {
	d := &verifDeps{mgr: &verifManager{}, mm: &verifMapping{}, wr: &verifWriter{}}
	if verifNative() {
		l := logrusx.New("verif", "0")
		c, err := config.NewDefault(context.Background(), pflag.NewFlagSet("verif", pflag.ContinueOnError), l,
			configx.WithValue(config.KeyDSN, "memory"),
			configx.WithValue(config.KeyNamespaces, verifKnownNamespaces),
			configx.WithValue(config.KeyBatchCheckMaxBatchSize, verifMaxBatch))
		if err != nil {
			panic(err)
		}
		d.cfg, d.log = c, l
		t, err := otelx.New("verif", l, c.TracingConfig())
		if err != nil {
			panic(err)
		}
		d.tr = t
	} else {
		d.cfg, d.log, d.tr = &config.Config{}, &logrusx.Logger{}, &otelx.Tracer{}
	}
	d.mapper = &relationtuple.Mapper{D: d}
	d.roMap = &relationtuple.Mapper{D: d, ReadOnly: true}
	d.eng = NewEngine(d)
	return d
}

// ---- the engine core as an uninterpreted function -------------------------------

type verifChkEntry struct {
	key   string
	depth int
	mem   checkgroup.Membership
	err   error
}

var (
	verifChkTable []verifChkEntry
	verifChkCalls int
)

var errVerifEngine = stderrors.New("verif: engine error")

// verifChk replaces (*Engine).CheckRelationTuple in symbolic runs.
func verifChk(e *Engine, ctx context.Context, r *relationTuple, restDepth int) checkgroup.Result {
	verifChkCalls++
	key := r.String()
	for _, en := range verifChkTable {
		if en.key == key && en.depth == restDepth {
			return checkgroup.Result{Membership: en.mem, Err: en.err}
		}
	}
	en := verifChkEntry{key: key, depth: restDepth}
	en.mem = checkgroup.Membership(verifChoice(3))
	if verifChoice(2) == 1 {
		en.err = errVerifEngine
	}
	verifChkTable = append(verifChkTable, en)
	return checkgroup.Result{Membership: en.mem, Err: en.err}
}

// ---- JSON decoding as "an arbitrary value of the static type" ---------------------

var verifJSONNext func(v interface{}) error

// verifJSONDecode replaces (*json.Decoder).Decode in symbolic runs.
func verifJSONDecode(d *json.Decoder, v interface{}) error {
	return verifJSONNext(v)
}

var errVerifJSON = stderrors.New("verif: malformed JSON")

// ---- request generators -------------------------------------------------------------

var verifNSPool = []string{"N", "X"}
var verifRelPool = []string{"r"}

func verifOptString(pool []string) *string {
	k := verifChoice(len(pool) + 1)
	if k == len(pool) {
		return nil
	}
	s := pool[k]
	return &s
}

// an arbitrary inhabitant of ketoapi.RelationTuple (as JSON can produce it)
// verifAdversarialNames: names are drawn from small pools of concrete strings
// that contain the separator characters of the textual rendering (so that
// different relationships render to the same text) instead of opaque strings.
var verifAdversarialNames bool

func verifAPITuple(full bool) *ketoapi.RelationTuple {
	if verifAdversarialNames {
		ns := []string{"N", "N:a", "X"}
		obj := []string{"b", "a:b"}
		t := &ketoapi.RelationTuple{Namespace: ns[verifChoice(len(ns))], Object: obj[verifChoice(len(obj))], Relation: "r"}
		if verifChoice(2) == 0 {
			ids := []string{"u", "N:b#r", "N:b"}
			s := ids[verifChoice(len(ids))]
			t.SubjectID = &s
		} else {
			rel := []string{"r", ""}
			t.SubjectSet = &ketoapi.SubjectSet{Namespace: "N", Object: "b", Relation: rel[verifChoice(len(rel))]}
		}
		return t
	}
	t := &ketoapi.RelationTuple{Namespace: verifNSPool[verifChoice(len(verifNSPool))], Object: verifOpaqueString(), Relation: verifRelPool[verifChoice(len(verifRelPool))]}
	kinds := 2
	if full {
		kinds = 4
	}
	switch verifChoice(kinds) {
	case 0:
		s := verifOpaqueString()
		t.SubjectID = &s
	case 1:
		t.SubjectSet = &ketoapi.SubjectSet{Namespace: verifNSPool[verifChoice(len(verifNSPool))], Object: verifOpaqueString(), Relation: verifRelPool[verifChoice(len(verifRelPool))]}
	case 2:
		// neither
	case 3:
		s := verifOpaqueString()
		t.SubjectID = &s
		t.SubjectSet = &ketoapi.SubjectSet{Namespace: "N", Object: verifOpaqueString(), Relation: "r"}
	}
	return t
}

var verifDepthPool = []string{"", "0", "3", "-1", "007", "0x10", "abc", "99999999999999999999"}

// verifDepthQuery: the max-depth parameter; the full pool only when the
// "depths" parameter asks for it (otherwise absent / valid / malformed).
func verifDepthQuery(q url.Values) {
	pool := verifDepthPool
	if verifParam("depths") == 0 {
		pool = []string{"3", "abc"}
	}
	k := verifChoice(len(pool) + 1)
	if k < len(pool) {
		q.Set("max-depth", pool[k])
	}
}

func verifProtoSubject() *rts.Subject {
	// (a oneof member that is present on the wire always carries a non-nil
	// message, so Subject_Set{Set: nil} is not a well-formed request)
	switch verifChoice(4) {
	case 0:
		return nil
	case 1:
		return &rts.Subject{} // Ref == nil
	case 2:
		return rts.NewSubjectID(verifOpaqueString())
	}
	return rts.NewSubjectSet(verifNSPool[verifChoice(len(verifNSPool))], verifOpaqueString(), verifRelPool[verifChoice(len(verifRelPool))])
}

func verifProtoTuple() *rts.RelationTuple {
	return &rts.RelationTuple{Namespace: verifNSPool[verifChoice(len(verifNSPool))], Object: verifOpaqueString(), Relation: verifRelPool[verifChoice(len(verifRelPool))], Subject: verifProtoSubject()}
}

// grpc status of an error as the unwrap interceptor computes it
func verifServerError(err error) bool {
	if err == nil {
		return false
	}
	return verifStatusOf(err) >= 500
}

// ---- C13 / C17 harnesses ------------------------------------------------------------

func verifAfterRead(d *verifDeps, what string) {
	verifAssert(d.mm.writes == 0 && d.mgr.writes == 0 && d.rwUsed == 0, "C17: a read API ("+what+") used a writing storage operation")
}

// HarnessC13CheckGRPC: any CheckRequest / BatchCheckRequest.
func HarnessC13CheckGRPC() {
	verifChkTable = nil
	d := verifNewDeps()
	h := NewHandler(d)
	ctx := context.Background()
	if verifChoice(2) == 0 {
		req := &rts.CheckRequest{MaxDepth: verifInt32()}
		if verifChoice(2) == 1 {
			req.Tuple = verifProtoTuple()
			verifTag("tuple-field")
		} else {
			req.Namespace, req.Object, req.Relation = verifNSPool[verifChoice(len(verifNSPool))], verifOpaqueString(), verifRelPool[verifChoice(len(verifRelPool))]
			req.Subject = verifProtoSubject()
			verifTag("deprecated-fields")
		}
		_, err := h.Check(ctx, req)
		verifReach("c13.grpc.check")
		if err != nil && !stderrors.Is(err, errVerifEngine) {
			verifAssert(!verifServerError(err), "C13: gRPC Check answers a malformed / unknown-namespace request with an internal error")
		}
		verifAfterRead(d, "gRPC Check")
		return
	}
	n := verifChoice(verifParam("batch") + 2) // up to one more than the limit
	req := &rts.BatchCheckRequest{MaxDepth: verifInt32()}
	for i := 0; i < n; i++ {
		req.Tuples = append(req.Tuples, verifProtoTuple())
	}
	verifTag("batch")
	resp, err := h.BatchCheck(ctx, req)
	verifReach("c13.grpc.batch")
	if err != nil {
		verifAssert(!verifServerError(err) || n > verifMaxBatch, "C13: gRPC BatchCheck answers a malformed request with an internal error")
	} else {
		verifAssert(len(resp.Results) == n, "C08: gRPC BatchCheck does not return one result per tuple")
	}
	verifAfterRead(d, "gRPC BatchCheck")
}

// HarnessC13CheckREST: getCheck / postCheck / doBatchCheck with arbitrary
// query strings and bodies.
func HarnessC13CheckREST() {
	verifChkTable = nil
	d := verifNewDeps()
	h := NewHandler(d)
	ctx := context.Background()
	q := url.Values{}
	verifDepthQuery(q)
	switch verifChoice(3) {
	case 0:
		// GET: every subset of the tuple keys
		keys := []string{ketoapi.NamespaceKey, ketoapi.ObjectKey, ketoapi.RelationKey, ketoapi.SubjectIDKey, ketoapi.SubjectSetNamespaceKey, ketoapi.SubjectSetObjectKey, ketoapi.SubjectSetRelationKey, "subject"}
		ns := verifNSPool[verifChoice(len(verifNSPool))]
		for _, k := range keys {
			if verifChoice(2) == 1 {
				if k == ketoapi.NamespaceKey || k == ketoapi.SubjectSetNamespaceKey {
					q.Set(k, ns)
				} else if k == ketoapi.RelationKey || k == ketoapi.SubjectSetRelationKey {
					q.Set(k, "r")
				} else {
					q.Set(k, verifOpaqueString())
				}
			}
		}
		verifTag("get")
		_, err := h.getCheck(ctx, q)
		verifReach("c13.rest.get")
		if err != nil && !stderrors.Is(err, errVerifEngine) {
			verifAssert(verifStatusOf(err) < 500, "C13: GET check answers a malformed request with a 5xx")
		}
	case 1:
		verifJSONNext = func(v interface{}) error {
			if verifChoice(4) == 0 {
				return errVerifJSON
			}
			*(v.(*ketoapi.RelationTuple)) = *verifAPITuple(true)
			return nil
		}
		verifTag("post")
		_, err := h.postCheck(ctx, nil, q)
		verifReach("c13.rest.post")
		if err != nil && !stderrors.Is(err, errVerifEngine) {
			verifAssert(verifStatusOf(err) < 500, "C13: POST check answers a malformed request with a 5xx")
		}
	default:
		n := verifChoice(verifParam("batch") + 2)
		hasNil := false
		verifJSONNext = func(v interface{}) error {
			if verifChoice(4) == 0 {
				return errVerifJSON
			}
			b := v.(*batchCheckPermissionBody)
			for i := 0; i < n; i++ {
				if verifChoice(3) == 0 {
					b.Tuples = append(b.Tuples, nil) // JSON null
					hasNil = true
					verifTag("batch-null-element")
				} else {
					b.Tuples = append(b.Tuples, verifAPITuple(true))
				}
			}
			return nil
		}
		verifTag("batch")
		res, err := h.doBatchCheck(ctx, nil, q)
		_ = hasNil
		verifReach("c13.rest.batch")
		if err != nil {
			verifAssert(verifStatusOf(err) < 500, "C13: REST batch check answers a malformed request with a 5xx")
		} else {
			verifAssert(len(res) == n, "C08: REST batch check does not return one result per tuple")
		}
	}
	verifAfterRead(d, "REST check")
}

// ---- C08: all check transports agree with the engine and with each other -----

// verifHTTPQuery replaces (*url.URL).Query for requests built by the harness.
var verifCurrentQuery url.Values

func verifURLQuery(u *url.URL) url.Values { return verifCurrentQuery }

func verifToProto(t *ketoapi.RelationTuple) *rts.RelationTuple {
	p := &rts.RelationTuple{Namespace: t.Namespace, Object: t.Object, Relation: t.Relation}
	if t.SubjectID != nil {
		p.Subject = rts.NewSubjectID(*t.SubjectID)
	} else if t.SubjectSet != nil {
		p.Subject = rts.NewSubjectSet(t.SubjectSet.Namespace, t.SubjectSet.Object, t.SubjectSet.Relation)
	}
	return p
}

// expected decision for a valid API tuple at depth d: what the engine core
// (the uninterpreted function) says for the mapped tuple.
// verifIsKnownNS: the oracle's own view of the configuration (not the mapper's).
func verifIsKnownNS(name string) bool {
	for _, n := range verifKnownNamespaces {
		if n.Name == name {
			return true
		}
	}
	return false
}

func verifExpected(d *verifDeps, t *ketoapi.RelationTuple, depth int) (allowed bool, engineErr bool, unknownNS bool) {
	// a relationship that names an unknown namespace, as its own or as its subject set's
	if !verifIsKnownNS(t.Namespace) || (t.SubjectSet != nil && !verifIsKnownNS(t.SubjectSet.Namespace)) {
		return false, false, true
	}
	it, err := d.roMap.FromTuple(context.Background(), t)
	if err != nil {
		return false, false, true
	}
	r := d.eng.CheckRelationTuple(context.Background(), it[0], depth)
	return r.Err == nil && r.Membership == checkgroup.IsMember, r.Err != nil, false
}

func HarnessC08Single() {
	verifChkTable = nil
	d := verifNewDeps()
	h := NewHandler(d)
	ctx := context.Background()
	t := verifAPITuple(false)
	depths := []int{0, 3, -1}
	ds := []string{"", "3", "-1"}
	k := verifChoice(len(depths))
	depth := depths[k]
	allowed, engineErr, unknownNS := verifExpected(d, t, depth)
	verifReach("c08.single")
	q := t.ToURLQuery()
	if ds[k] != "" {
		q.Set("max-depth", ds[k])
	}
	pq := url.Values{}
	if ds[k] != "" {
		pq.Set("max-depth", ds[k])
	}
	verifJSONNext = func(v interface{}) error { *(v.(*ketoapi.RelationTuple)) = *t; return nil }

	// GET and POST (always-200 variants return the decision)
	gotGet, errGet := h.getCheck(ctx, q)
	gotPost, errPost := h.postCheck(ctx, nil, pq)
	verifAssert((errGet != nil) == engineErr && (errPost != nil) == engineErr, "C08: REST check reports an error although the engine did not (or vice versa)")
	if !engineErr {
		verifAssert(gotGet == allowed, "C08: REST GET check disagrees with the engine")
		verifAssert(gotPost == allowed, "C08: REST POST check disagrees with the engine")
	}
	if unknownNS {
		verifAssert(!gotGet && !gotPost, "C08: REST check reports a relationship in an unknown namespace as allowed")
	}
	// status mirroring variants
	verifCurrentQuery = q
	req := &http.Request{URL: &url.URL{}}
	d.wr.code = 0
	h.getCheckMirrorStatus(nil, req, nil)
	if !engineErr {
		verifAssert((d.wr.code == 200) == allowed && (d.wr.code == 403) == !allowed, "C08: GET status mirroring is not 200 <=> allowed, 403 <=> denied")
	}
	verifCurrentQuery = pq
	d.wr.code = 0
	h.postCheckMirrorStatus(nil, req, nil)
	if !engineErr {
		verifAssert((d.wr.code == 200) == allowed && (d.wr.code == 403) == !allowed, "C08: POST status mirroring is not 200 <=> allowed, 403 <=> denied")
	}
	// gRPC
	resp, err := h.Check(ctx, &rts.CheckRequest{Tuple: verifToProto(t), MaxDepth: int32(depth)})
	if unknownNS {
		verifAssert(err != nil || !resp.Allowed, "C08: gRPC Check reports a relationship in an unknown namespace as allowed")
	} else {
		verifAssert((err != nil) == engineErr, "C08: gRPC Check reports an error although the engine did not (or vice versa)")
		if err == nil {
			verifAssert(resp.Allowed == allowed, "C08: gRPC Check disagrees with the engine")
		}
	}
}

// HarnessC08Batch: batch(B)[i] == single(B[i]) for batches of n entries
// (valid, unknown namespace, no subject, duplicates), REST and gRPC.
func HarnessC08Batch() {
	verifAdversarialNames = false
	verifC08Batch()
}

// HarnessC08BatchNames: the same with names that contain ':', '#' and '@', so
// that different relationships have the same textual rendering.
func HarnessC08BatchNames() {
	verifAdversarialNames = true
	verifC08Batch()
}

func verifC08Batch() {
	verifChkTable = nil
	verifMaxBatch = 2
	d := verifNewDeps()
	h := NewHandler(d)
	ctx := context.Background()
	n := verifChoice(3)
	var b []*ketoapi.RelationTuple
	for i := 0; i < n; i++ {
		if i > 0 && verifChoice(3) == 0 {
			b = append(b, b[0]) // duplicate
			continue
		}
		t := verifAPITuple(false)
		if verifChoice(4) == 0 {
			t.SubjectID, t.SubjectSet = nil, nil // malformed entry
		}
		b = append(b, t)
	}
	verifJSONNext = func(v interface{}) error { v.(*batchCheckPermissionBody).Tuples = b; return nil }
	verifReach("c08.batch")
	res, err := h.doBatchCheck(ctx, nil, url.Values{})
	if err != nil {
		verifFail("C08: REST batch check fails as a whole: " + err.Error())
		return
	}
	verifAssert(len(res) == n, "C08: REST batch check does not return one result per tuple")
	// gRPC only for well-formed entries (an absent subject is F10a)
	wellFormed := true
	for _, t := range b {
		if t.SubjectID == nil && t.SubjectSet == nil {
			wellFormed = false
		}
	}
	var gres *rts.BatchCheckResponse
	if wellFormed {
		req := &rts.BatchCheckRequest{}
		for _, t := range b {
			req.Tuples = append(req.Tuples, verifToProto(t))
		}
		var gerr error
		gres, gerr = h.BatchCheck(ctx, req)
		if gerr != nil {
			verifFail("C08: gRPC batch check fails as a whole: " + gerr.Error())
			return
		}
		verifAssert(len(gres.Results) == n, "C08: gRPC batch check does not return one result per tuple")
	}
	for i := 0; i < n && i < len(res); i++ {
		t := b[i]
		if t.SubjectID == nil && t.SubjectSet == nil {
			verifAssert(!res[i].Allowed && res[i].Error != "", "C08: a batch entry without subject is not rejected in its own slot")
			continue
		}
		allowed, engineErr, unknownNS := verifExpected(d, t, 0)
		if unknownNS {
			verifAssert(!res[i].Allowed, "C08: a batch entry in an unknown namespace is reported as allowed")
			if gres != nil {
				verifAssert(!gres.Results[i].Allowed, "C08: a gRPC batch entry in an unknown namespace is reported as allowed")
			}
			continue
		}
		if engineErr {
			verifTag("engine-result-with-error")
			verifAssert(res[i].Error != "", "C08: a batch entry drops the engine's error")
			verifAssert(!res[i].Allowed, "C08: a batch entry carries an error and says allowed")
			verifTag("")
			continue
		}
		verifAssert(res[i].Allowed == allowed && res[i].Error == "", "C08: REST batch entry disagrees with the single check of the same tuple")
		if gres != nil {
			verifAssert(gres.Results[i].Allowed == allowed && gres.Results[i].Error == "", "C08: gRPC batch entry disagrees with the single check of the same tuple")
		}
	}
}
