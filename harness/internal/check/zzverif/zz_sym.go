//go:build verif && !sqlite

package zzverif

// Symbolic-run dependencies: the real engine on top of MemStore, the
// in-memory specification of storage (relationtuple.Manager + Traverser over
// the symbolic rows). Configuration getters of *config.Config are overridden
// by the verifCfg* functions below (see the override table in vcheck).

import (
	"fmt"
	"context"
	"errors"
	"strconv"

	"github.com/gofrs/uuid"
	"github.com/ory/herodot"
	"github.com/ory/x/logrusx"
	"github.com/ory/x/otelx"

	"github.com/ory/keto/internal/check/checkgroup"
	"github.com/ory/keto/internal/driver/config"
	"github.com/ory/keto/internal/namespace"
	"github.com/ory/keto/internal/persistence"
	"github.com/ory/keto/internal/relationtuple"
	"github.com/ory/keto/internal/x"
	"github.com/ory/keto/internal/x/graph"
)

var verifWorld *world

// verifUnknownMemberFunc replaces checkgroup.UnknownMemberFunc: same
// behaviour plus the ghost flag "a depth limit was hit".
func verifUnknownMemberFunc(_ context.Context, resultCh chan<- checkgroup.Result) {
	verifLimitHit = true
	resultCh <- checkgroup.Result{Membership: checkgroup.MembershipUnknown}
}

var errStorage = errors.New("verif: injected storage failure")

// errStorageCancelled: errors.Is(err, context.Canceled) holds
var errStorageCancelled = fmt.Errorf("verif: injected storage failure: query cancelled: %w", context.Canceled)

// verifCheckAndAddVisited wraps graph.CheckAndAddVisited (the call below
// reaches the original) and counts how often a subject set was skipped as
// already visited.
func verifCheckAndAddVisited(ctx context.Context, current relationtuple.Subject) (context.Context, bool) {
	c, visited := graph.CheckAndAddVisited(ctx, current)
	verifVisitedCalls++
	if visited {
		verifVisitedSkips++
	}
	return c, visited
}

// ---- configuration overrides --------------------------------------------

func verifCfgMaxReadDepth(c *config.Config) int { return verifWorld.maxDepth }
func verifCfgMaxReadWidth(c *config.Config) int { return verifWorld.maxWidth }
func verifCfgStrictMode(c *config.Config) bool  { return verifWorld.strict }
func verifCfgBatchLimit(c *config.Config) int   { return 2 }
func verifCfgNamespaceManager(c *config.Config) (namespace.Manager, error) {
	return config.NewMemoryNamespaceManager(verifWorld.shape.namespaces()...), nil
}

type symDeps struct {
	store *memStore
	cfg   *config.Config
	log   *logrusx.Logger
	tr    *otelx.Tracer
}

func (d *symDeps) RelationTupleManager() relationtuple.Manager { return d.store }
func (d *symDeps) Mapper() *relationtuple.Mapper                 { return nil }
func (d *symDeps) ReadOnlyMapper() *relationtuple.Mapper {
	// names -> ids as the SQL mapping manager computes them (UUIDv5 of the name), without a table
	return &relationtuple.Mapper{D: &symMapperDeps{mm: v5Mapping{}, cfg: d.cfg}, ReadOnly: true}
}
func (d *symDeps) Persister() persistence.Persister              { return nil }
func (d *symDeps) Traverser() relationtuple.Traverser            { return d.store }
func (d *symDeps) Config(context.Context) *config.Config         { return d.cfg }
func (d *symDeps) Logger() *logrusx.Logger                       { return d.log }
func (d *symDeps) Tracer(context.Context) *otelx.Tracer          { return d.tr }
func (d *symDeps) NetworkID(context.Context) uuid.UUID           { return uuid.Nil }

func newDeps(w *world) *symDeps {
	verifWorld = w
	verifLimitHit, verifWidthHit, verifCalls, verifFaults, verifVisitedSkips = false, false, 0, 0, 0
	return &symDeps{store: &memStore{w: w}, cfg: &config.Config{}, log: &logrusx.Logger{}, tr: &otelx.Tracer{}}
}

func closeDeps(*symDeps) {}

// ---- MemStore ------------------------------------------------------------

type memStore struct {
	w *world
}

// call counts a storage operation and decides whether it fails / cancels.
func (m *memStore) call() error {
	verifCalls++
	if verifCancelAt != 0 && verifCalls == verifCancelAt && verifCancel != nil {
		verifCancel()
	}
	if verifFailAt != 0 {
		if verifCalls == verifFailAt || (verifPersistent && verifCalls > verifFailAt) {
			verifFaults++
			if verifFaultCancelled {
				// what database/sql and the persister return for a query that was
				// cancelled (by the driver, a proxy, a statement timeout): an error
				// that wraps context.Canceled although the request is still live
				return errStorageCancelled
			}
			return errStorage
		}
	}
	return nil
}

func (m *memStore) objIndex(u uuid.UUID) int {
	for i := 0; i < m.w.nObj; i++ {
		if objID(i) == u {
			return i
		}
	}
	return -1
}

func (m *memStore) subjIndex(s relationtuple.Subject) (subject, bool) {
	switch v := s.(type) {
	case *relationtuple.SubjectID:
		for i := range subjNames {
			if subjID(i) == v.ID {
				return subject{sid: i}, true
			}
		}
	case *relationtuple.SubjectSet:
		o, r := m.objIndex(v.Object), m.w.shape.relIndexNS(v.Namespace, v.Relation)
		if o >= 0 && r >= 0 {
			return subject{isSet: true, sobj: o, srel: r}, true
		}
	}
	return subject{}, false
}

// lhsMatch: does row i have the given namespace/object/relation (nil = any)?
func (m *memStore) matches(i int, ns *string, obj *uuid.UUID, rel *string, sub relationtuple.Subject) bool {
	return verifConcretizeBool(m.matchTerm(i, ns, obj, rel, sub))
}

// matchTerm is the (possibly symbolic) condition "row i matches".
func (m *memStore) matchTerm(i int, ns *string, obj *uuid.UUID, rel *string, sub relationtuple.Subject) bool {
	rw := &m.w.rows[i]
	c := rw.present
	if ns != nil && rel == nil {
		// any relation of that namespace
		in := false
		for l := range m.w.shape.rels {
			if m.w.shape.nsOf(l) == *ns {
				in = verifOr(in, verifEq(rw.rel, l))
			}
		}
		c = verifAnd(c, in)
	}
	if obj != nil {
		o := m.objIndex(*obj)
		if o < 0 {
			return false
		}
		c = verifAnd(c, verifEq(rw.obj, o))
	}
	if rel != nil {
		if ns != nil {
			r := m.w.shape.relIndexNS(*ns, *rel)
			if r < 0 {
				return false
			}
			c = verifAnd(c, verifEq(rw.rel, r))
		} else {
			in := false
			for l, name := range m.w.shape.rels {
				if name == *rel {
					in = verifOr(in, verifEq(rw.rel, l))
				}
			}
			c = verifAnd(c, in)
		}
	}
	if sub != nil {
		s, ok := m.subjIndex(sub)
		if !ok {
			return false
		}
		if s.isSet {
			c = verifAnd(c, verifAnd(rw.isSet, verifAnd(verifEq(rw.sobj, s.sobj), verifEq(rw.srel, s.srel))))
		} else {
			c = verifAnd(c, verifAnd(verifNot(rw.isSet), verifEq(rw.sid, s.sid)))
		}
	}
	return c
}

// materialise makes the fields of row i concrete (one path per content).
func (m *memStore) materialise(i int) *relationtuple.RelationTuple {
	rw := &m.w.rows[i]
	rw.obj = verifConcretize(rw.obj)
	rw.rel = verifConcretize(rw.rel)
	rw.isSet = verifConcretizeBool(rw.isSet)
	var s subject
	if rw.isSet {
		rw.sobj = verifConcretize(rw.sobj)
		rw.srel = verifConcretize(rw.srel)
		s = subject{isSet: true, sobj: rw.sobj, srel: rw.srel}
	} else {
		rw.sid = verifConcretize(rw.sid)
		s = subject{sid: rw.sid}
	}
	return m.w.tuple(rw.obj, rw.rel, s)
}

func (m *memStore) ExistsRelationTuples(ctx context.Context, q *relationtuple.RelationQuery) (bool, error) {
	if err := m.call(); err != nil {
		return false, err
	}
	// the answer stays symbolic: the caller's branch on it is the only fork
	found := false
	for i := range m.w.rows {
		found = verifOr(found, m.matchTerm(i, q.Namespace, q.Object, q.Relation, q.Subject))
	}
	return found, nil
}

func (m *memStore) GetRelationTuples(ctx context.Context, q *relationtuple.RelationQuery, options ...x.PaginationOptionSetter) ([]*relationtuple.RelationTuple, string, error) {
	if err := m.call(); err != nil {
		return nil, "", err
	}
	opts := x.GetPaginationOptions(options...)
	start := 0
	if opts.Token != "" {
		n, err := strconv.Atoi(opts.Token)
		if err != nil {
			return nil, "", persistence.ErrMalformedPageToken
		}
		start = n
	}
	size := opts.Size
	if size == 0 {
		size = verifPageSize
	}
	res := make([]*relationtuple.RelationTuple, 0)
	for i := start; i < len(m.w.rows); i++ {
		if !m.matches(i, q.Namespace, q.Object, q.Relation, q.Subject) {
			continue
		}
		if len(res) == size {
			// one more matching row exists: hand out a token
			return res, strconv.Itoa(i), nil
		}
		res = append(res, m.materialise(i))
	}
	return res, "", nil
}

func (m *memStore) TraverseSubjectSetExpansion(ctx context.Context, start *relationtuple.RelationTuple) ([]*relationtuple.TraversalResult, error) {
	if err := m.call(); err != nil {
		return nil, err
	}
	if start.Subject == nil {
		return nil, herodot.ErrBadRequest
	}
	var res []*relationtuple.TraversalResult
	for i := range m.w.rows {
		if !m.matches(i, &start.Namespace, &start.Object, &start.Relation, nil) {
			continue
		}
		if !verifConcretizeBool(m.w.rows[i].isSet) {
			continue
		}
		t := m.materialise(i)
		ss := t.Subject.(*relationtuple.SubjectSet)
		found := false
		for j := range m.w.rows {
			found = verifOr(found, m.matchTerm(j, &ss.Namespace, &ss.Object, &ss.Relation, start.Subject))
		}
		found = verifConcretizeBool(found)
		res = append(res, &relationtuple.TraversalResult{
			From:  start,
			To:    &relationtuple.RelationTuple{Namespace: ss.Namespace, Object: ss.Object, Relation: ss.Relation, Subject: start.Subject},
			Via:   relationtuple.TraversalSubjectSetExpand,
			Found: found,
		})
		if found {
			return res, nil
		}
	}
	if len(res) > m.w.maxWidth {
		verifWidthHit = true
		// the engine may follow max-width - 1 of these
		verifExpandAllowance += m.w.maxWidth - 1
	} else {
		verifExpandAllowance += len(res)
	}
	return res, nil
}

func (m *memStore) TraverseSubjectSetRewrite(ctx context.Context, start *relationtuple.RelationTuple, computed []string) ([]*relationtuple.TraversalResult, error) {
	if err := m.call(); err != nil {
		return nil, err
	}
	var relations []string
	for _, relation := range computed {
		ri := m.w.shape.relIndexNS(start.Namespace, relation)
		var astRel = m.w.shape.relation(ri)
		if m.w.strict && astRel != nil && astRel.SubjectSetRewrite != nil {
			continue
		}
		relations = append(relations, relation)
	}
	for i := range m.w.rows {
		for _, rel := range relations {
			rel := rel
			if m.matches(i, &start.Namespace, &start.Object, &rel, start.Subject) {
				return []*relationtuple.TraversalResult{{
					From: start, To: m.materialise(i), Via: relationtuple.TraversalComputedUserset, Found: true,
				}}, nil
			}
		}
	}
	var res []*relationtuple.TraversalResult
	for _, relation := range computed {
		res = append(res, &relationtuple.TraversalResult{
			From:  start,
			To:    &relationtuple.RelationTuple{Namespace: start.Namespace, Object: start.Object, Relation: relation, Subject: start.Subject},
			Via:   relationtuple.TraversalComputedUserset,
			Found: false,
		})
	}
	return res, nil
}

func (m *memStore) WriteRelationTuples(ctx context.Context, rs ...*relationtuple.RelationTuple) error {
	panic("MemStore is read-only")
}
func (m *memStore) DeleteRelationTuples(ctx context.Context, rs ...*relationtuple.RelationTuple) error {
	panic("MemStore is read-only")
}
func (m *memStore) DeleteAllRelationTuples(ctx context.Context, query *relationtuple.RelationQuery) error {
	panic("MemStore is read-only")
}
func (m *memStore) TransactRelationTuples(ctx context.Context, insert []*relationtuple.RelationTuple, delete []*relationtuple.RelationTuple) error {
	panic("MemStore is read-only")
}

// ---- mapper dependencies (C16) --------------------------------------------

type symMapperDeps struct {
	mm  relationtuple.MappingManager
	cfg *config.Config
}

func (d *symMapperDeps) MappingManager() relationtuple.MappingManager { return d.mm }
func (d *symMapperDeps) Config(context.Context) *config.Config        { return d.cfg }

func newMapperDeps(mm relationtuple.MappingManager) *symMapperDeps {
	verifWorld = &world{shape: &cfgShape{nss: []*namespace.Namespace{{Name: "N"}, {Name: "M"}}}}
	return &symMapperDeps{mm: mm, cfg: &config.Config{}}
}
