//go:build verif && sqlite

package zzverif

// Native-replay dependencies: the real registry on an in-memory SQLite
// database, configured and populated from the (now concrete) world.

import (
	"context"

	"github.com/ory/keto/internal/driver"
	"github.com/ory/keto/internal/driver/config"
	"github.com/ory/keto/internal/namespace"
	"github.com/ory/keto/internal/relationtuple"
	"github.com/ory/keto/internal/x"
)

type nativeDeps struct {
	*driver.RegistryDefault
}

// pagedManager applies the page size of the counterexample where the caller
// gives none (the symbolic store's default page size is verifPageSize).
type pagedManager struct {
	relationtuple.Manager
	size int
}

func (m pagedManager) GetRelationTuples(ctx context.Context, q *relationtuple.RelationQuery, opts ...x.PaginationOptionSetter) ([]*relationtuple.RelationTuple, string, error) {
	return m.Manager.GetRelationTuples(ctx, q, append([]x.PaginationOptionSetter{x.WithSize(m.size)}, opts...)...)
}

// ReadOnlyMapper: the worlds' ids are UUIDv5(uuid.Nil, name), see objID/subjID
func (d *nativeDeps) ReadOnlyMapper() *relationtuple.Mapper {
	return &relationtuple.Mapper{D: &nativeMapperDeps{mm: v5Mapping{}, reg: d.RegistryDefault}, ReadOnly: true}
}

func (d *nativeDeps) RelationTupleManager() relationtuple.Manager {
	m := d.RegistryDefault.RelationTupleManager()
	if verifPageSize != 100 {
		return pagedManager{m, verifPageSize}
	}
	return m
}

func newDeps(w *world) *nativeDeps {
	ctx := context.Background()
	must := func(err error) {
		if err != nil {
			panic(err)
		}
	}
	var reg *driver.RegistryDefault
	if w.opl != "" {
		reg = driver.NewSqliteTestRegistry(verifTB, false, driver.WithOPL(w.opl),
			driver.WithConfig(config.KeyNamespacesExperimentalStrictMode, w.strict))
	} else if len(w.shape.ns.Relations) == 0 && !w.strict {
		reg = driver.NewSqliteTestRegistry(verifTB, false, driver.WithNamespaces(w.shape.namespaces()))
	} else {
		// the configuration goes through the real OPL parser and type checker
		reg = driver.NewSqliteTestRegistry(verifTB, false, driver.WithOPL(w.shape.renderOPL()),
			driver.WithConfig(config.KeyNamespacesExperimentalStrictMode, w.strict))
	}
	must(reg.Config(ctx).Set(config.KeyLimitMaxReadDepth, w.maxDepth))
	must(reg.Config(ctx).Set(config.KeyLimitMaxReadWidth, w.maxWidth))
	if nm, err := reg.Config(ctx).NamespaceManager(); err != nil {
		panic(err)
	} else if nn, err := nm.Namespaces(ctx); err != nil || (w.opl == "" && len(nn) != len(w.shape.namespaces())) {
		panic("native replay: the OPL rendering of the configuration was not accepted")
	} else if w.opl == "" && len(w.shape.ns.Relations) > 0 {
		// the parser must have produced exactly the shape's AST
		got := nn[0]
		if len(got.Relations) != len(w.shape.ns.Relations) {
			panic("native replay: parsed configuration has a different number of relations than the shape")
		}
		for i, r := range w.shape.ns.Relations {
			g := got.Relations[i]
			if g.Name != r.Name || (g.SubjectSetRewrite == nil) != (r.SubjectSetRewrite == nil) ||
				(r.SubjectSetRewrite != nil && astString(g.SubjectSetRewrite) != astString(r.SubjectSetRewrite)) {
				panic("native replay: parsed configuration differs from the shape at relation " + r.Name + ": " + astString(g.SubjectSetRewrite) + " vs " + astString(r.SubjectSetRewrite))
			}
		}
	}
	var ts []*relationtuple.RelationTuple
	for _, rw := range w.rows {
		if !rw.present {
			continue
		}
		s := subject{isSet: rw.isSet, sid: rw.sid, sobj: rw.sobj, srel: rw.srel}
		ts = append(ts, w.tuple(rw.obj, rw.rel, s))
	}
	// Storage order is the order of the random shard ids. The symbolic store is
	// ordered by row slot, so insert until the real order equals the slot order
	// (K! equally likely orders; 400 attempts).
	mgr := reg.RelationTupleManager()
	for attempt := 0; attempt < 400; attempt++ {
		for _, t := range ts {
			must(mgr.WriteRelationTuples(ctx, t))
		}
		got, _, err := mgr.GetRelationTuples(ctx, &relationtuple.RelationQuery{})
		must(err)
		same := len(got) == len(ts)
		for i := 0; same && i < len(ts); i++ {
			same = got[i].String() == ts[i].String()
		}
		if same {
			break
		}
		must(mgr.DeleteAllRelationTuples(ctx, &relationtuple.RelationQuery{}))
		if attempt == 399 {
			panic("native replay: could not reproduce the storage order of the counterexample")
		}
	}
	return &nativeDeps{reg}
}

func closeDeps(*nativeDeps) {}

// ---- mapper dependencies (C16) --------------------------------------------

type nativeMapperDeps struct {
	mm  relationtuple.MappingManager
	reg *driver.RegistryDefault
}

func (d *nativeMapperDeps) MappingManager() relationtuple.MappingManager { return d.mm }
func (d *nativeMapperDeps) Config(ctx context.Context) *config.Config     { return d.reg.Config(ctx) }

func newMapperDeps(mm relationtuple.MappingManager) *nativeMapperDeps {
	reg := driver.NewSqliteTestRegistry(verifTB, false, driver.WithNamespaces([]*namespace.Namespace{{Name: "N"}, {Name: "M"}}))
	return &nativeMapperDeps{mm: mm, reg: reg}
}
