//go:build verif

package zzverif

import (
	"context"
	"errors"

	"github.com/gofrs/uuid"

	"github.com/ory/keto/internal/relationtuple"
	"github.com/ory/keto/ketoapi"
)

// C16: names survive the string-to-UUID mapping unchanged and unaliased.
//
// stubMapping is an injective string<->UUID table. Strings are opaque
// symbolic values: whether two of them are equal is decided by the solver
// (one branch per comparison), so duplicates inside a request and the same
// string used as object and subject are particular valuations.

type stubMapping struct {
	strs     []string
	ids      []uuid.UUID
	writes   int // MapStringsToUUIDs calls (the writing variant)
	readOnly int
}

func (m *stubMapping) idFor(s string) uuid.UUID {
	for i := range m.strs {
		if verifConcretizeBool(verifStrEq(m.strs[i], s)) {
			return m.ids[i]
		}
	}
	var u uuid.UUID
	u[0] = 0xAA
	u[15] = byte(len(m.strs) + 1)
	m.strs = append(m.strs, s)
	m.ids = append(m.ids, u)
	return u
}

func (m *stubMapping) MapStringsToUUIDs(ctx context.Context, s ...string) ([]uuid.UUID, error) {
	m.writes++
	out := make([]uuid.UUID, len(s))
	for i := range s {
		out[i] = m.idFor(s[i])
	}
	return out, nil
}

func (m *stubMapping) MapStringsToUUIDsReadOnly(ctx context.Context, s ...string) ([]uuid.UUID, error) {
	m.readOnly++
	out := make([]uuid.UUID, len(s))
	for i := range s {
		out[i] = m.idFor(s[i])
	}
	return out, nil
}

func (m *stubMapping) MapUUIDsToStrings(ctx context.Context, u ...uuid.UUID) ([]string, error) {
	out := make([]string, len(u))
	for i := range u {
		found := false
		for j := range m.ids {
			if m.ids[j] == u[i] {
				out[i] = m.strs[j]
				found = true
			}
		}
		if !found {
			return nil, errors.New("unknown uuid")
		}
	}
	return out, nil
}

var c16Namespaces = []string{"N", "M"}

func c16Tuple() *ketoapi.RelationTuple {
	t := &ketoapi.RelationTuple{Namespace: c16Namespaces[verifChoice(2)], Object: verifOpaqueString(), Relation: verifOpaqueString()}
	if verifChoice(2) == 0 {
		s := verifOpaqueString()
		t.SubjectID = &s
	} else {
		t.SubjectSet = &ketoapi.SubjectSet{Namespace: c16Namespaces[verifChoice(2)], Object: verifOpaqueString(), Relation: verifOpaqueString()}
	}
	return t
}

func strPtrEq(a, b *string) bool {
	if (a == nil) != (b == nil) {
		return false
	}
	if a == nil {
		return true
	}
	return verifStrEq(*a, *b)
}

func apiTupleEq(a, b *ketoapi.RelationTuple) bool {
	r := verifAnd(a.Namespace == b.Namespace, verifAnd(verifStrEq(a.Object, b.Object), verifStrEq(a.Relation, b.Relation)))
	r = verifAnd(r, strPtrEq(a.SubjectID, b.SubjectID))
	if (a.SubjectSet == nil) != (b.SubjectSet == nil) {
		return false
	}
	if a.SubjectSet != nil {
		r = verifAnd(r, verifAnd(a.SubjectSet.Namespace == b.SubjectSet.Namespace,
			verifAnd(verifStrEq(a.SubjectSet.Object, b.SubjectSet.Object), verifStrEq(a.SubjectSet.Relation, b.SubjectSet.Relation))))
	}
	return r
}

// HarnessC16Tuples: ToTuple(FromTuple(b)) == b position-wise for batches of
// 0..nmax tuples with arbitrary (possibly equal) names; the internal tuples
// carry the ids of the right strings in the right fields; equal strings get
// equal ids and different strings different ids.
func HarnessC16Tuples() {
	n := verifChoice(verifParam("nmax") + 1)
	mm := &stubMapping{}
	deps := newMapperDeps(mm)
	ro := verifChoice(2) == 1
	m := &relationtuple.Mapper{D: deps, ReadOnly: ro}
	batch := make([]*ketoapi.RelationTuple, n)
	for i := range batch {
		batch[i] = c16Tuple()
	}
	ctx := context.Background()
	internal, err := m.FromTuple(ctx, batch...)
	verifReach("c16.mapped")
	if err != nil {
		verifFail("C16: FromTuple fails on valid tuples: " + err.Error())
		return
	}
	if ro {
		verifAssert(mm.writes == 0, "C16: the read-only mapper used the writing MapStringsToUUIDs")
	}
	verifAssert(len(internal) == n, "C16: FromTuple returns a different number of tuples")
	if len(internal) != n {
		return
	}
	for i, it := range internal {
		b := batch[i]
		verifAssert(it.Namespace == b.Namespace && verifConcretizeBool(verifStrEq(it.Relation, b.Relation)), "C16: namespace/relation of the wrong relationship")
		verifAssert(it.Object == mm.idFor(b.Object), "C16: object id is not the id of this relationship's object string")
		switch s := it.Subject.(type) {
		case *relationtuple.SubjectID:
			verifAssert(b.SubjectID != nil && s.ID == mm.idFor(*b.SubjectID), "C16: subject id is not the id of this relationship's subject string")
		case *relationtuple.SubjectSet:
			verifAssert(b.SubjectSet != nil && s.Object == mm.idFor(b.SubjectSet.Object) && s.Namespace == b.SubjectSet.Namespace &&
				verifConcretizeBool(verifStrEq(s.Relation, b.SubjectSet.Relation)), "C16: subject set is not this relationship's subject set")
		default:
			verifFail("C16: internal tuple without subject")
		}
	}
	back, err := m.ToTuple(ctx, internal...)
	if err != nil {
		verifFail("C16: ToTuple fails: " + err.Error())
		return
	}
	verifAssert(len(back) == n, "C16: ToTuple returns a different number of tuples")
	for i := 0; i < n && i < len(back); i++ {
		verifAssert(apiTupleEq(back[i], batch[i]), "C16: ToTuple(FromTuple(b))[i] != b[i]")
	}
}

// HarnessC16Query: ToQuery(FromQuery(q)) == q over all query shapes.
func HarnessC16Query() {
	mm := &stubMapping{}
	deps := newMapperDeps(mm)
	m := &relationtuple.Mapper{D: deps, ReadOnly: verifChoice(2) == 1}
	q := &ketoapi.RelationQuery{}
	if verifChoice(2) == 1 {
		ns := c16Namespaces[verifChoice(2)]
		q.Namespace = &ns
	}
	if verifChoice(2) == 1 {
		s := verifOpaqueString()
		q.Object = &s
	}
	if verifChoice(2) == 1 {
		s := verifOpaqueString()
		q.Relation = &s
	}
	switch verifChoice(3) {
	case 1:
		s := verifOpaqueString()
		q.SubjectID = &s
	case 2:
		q.SubjectSet = &ketoapi.SubjectSet{Namespace: c16Namespaces[verifChoice(2)], Object: verifOpaqueString(), Relation: verifOpaqueString()}
	}
	ctx := context.Background()
	iq, err := m.FromQuery(ctx, q)
	verifReach("c16.query")
	if err != nil {
		verifFail("C16: FromQuery fails: " + err.Error())
		return
	}
	if q.Object != nil {
		verifAssert(iq.Object != nil && *iq.Object == mm.idFor(*q.Object), "C16: query object id is not the id of the object string")
	} else {
		verifAssert(iq.Object == nil, "C16: query object appeared from nowhere")
	}
	back, err := m.ToQuery(ctx, iq)
	if err != nil {
		verifFail("C16: ToQuery fails: " + err.Error())
		return
	}
	ok := verifAnd(strPtrEq(back.Namespace, q.Namespace), verifAnd(strPtrEq(back.Object, q.Object), verifAnd(strPtrEq(back.Relation, q.Relation), strPtrEq(back.SubjectID, q.SubjectID))))
	if (back.SubjectSet == nil) != (q.SubjectSet == nil) {
		ok = false
	} else if q.SubjectSet != nil {
		ok = verifAnd(ok, verifAnd(back.SubjectSet.Namespace == q.SubjectSet.Namespace, verifAnd(verifStrEq(back.SubjectSet.Object, q.SubjectSet.Object), verifStrEq(back.SubjectSet.Relation, q.SubjectSet.Relation))))
	}
	verifAssert(ok, "C16: ToQuery(FromQuery(q)) != q")
}

// HarnessC16Tree: ToTree maps every node's subject to its own string.
func HarnessC16Tree() {
	mm := &stubMapping{}
	deps := newMapperDeps(mm)
	m := &relationtuple.Mapper{D: deps, ReadOnly: true}
	names := []string{verifOpaqueString(), verifOpaqueString(), verifOpaqueString()}
	mk := func(i int, leaf bool) *relationtuple.Tree {
		id := mm.idFor(names[i])
		if leaf && verifChoice(2) == 0 {
			return &relationtuple.Tree{Type: ketoapi.TreeNodeLeaf, Subject: &relationtuple.SubjectID{ID: id}}
		}
		return &relationtuple.Tree{Type: ketoapi.TreeNodeUnion, Subject: &relationtuple.SubjectSet{Namespace: "N", Object: id, Relation: "r"}}
	}
	root := mk(0, false)
	root.Children = []*relationtuple.Tree{mk(1, true), mk(2, true)}
	if verifChoice(2) == 1 {
		root.Children[0].Children = []*relationtuple.Tree{mk(2, true)}
	}
	out, err := m.ToTree(context.Background(), root)
	verifReach("c16.tree")
	if err != nil {
		verifFail("C16: ToTree fails: " + err.Error())
		return
	}
	var check func(in *relationtuple.Tree, o *ketoapi.Tree[*ketoapi.RelationTuple], want string)
	check = func(in *relationtuple.Tree, o *ketoapi.Tree[*ketoapi.RelationTuple], want string) {
		switch in.Subject.(type) {
		case *relationtuple.SubjectID:
			verifAssert(o.Tuple.SubjectID != nil && verifConcretizeBool(verifStrEq(*o.Tuple.SubjectID, want)), "C16: tree leaf carries the wrong subject string")
		case *relationtuple.SubjectSet:
			verifAssert(o.Tuple.SubjectSet != nil && verifConcretizeBool(verifStrEq(o.Tuple.SubjectSet.Object, want)), "C16: tree node carries the wrong object string")
		}
	}
	check(root, out, names[0])
	verifAssert(len(out.Children) == len(root.Children), "C16: tree children lost")
	if len(out.Children) == 2 {
		check(root.Children[0], out.Children[0], names[1])
		check(root.Children[1], out.Children[1], names[2])
		if len(root.Children[0].Children) == 1 && len(out.Children[0].Children) == 1 {
			check(root.Children[0].Children[0], out.Children[0].Children[0], names[2])
		}
	}
}
