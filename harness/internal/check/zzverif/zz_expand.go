//go:build verif

package zzverif

import (
	"context"

	"github.com/ory/keto/internal/check/checkgroup"
	"github.com/ory/keto/internal/expand"
	"github.com/ory/keto/internal/relationtuple"
	"github.com/ory/keto/ketoapi"
)

// C09: expand returns a sound and complete picture of a subject set.

type treeFacts struct {
	w        *world
	rs       *refsem
	height   int
	expanded map[int]int // node id -> times it has children
	idLeaf   []bool      // subject id appears in the tree
	setNode  []bool      // subject set appears in the tree (node id)
	bad      string
}

func (w *world) subjectOf(s relationtuple.Subject) (subject, bool) {
	switch v := s.(type) {
	case *relationtuple.SubjectID:
		for i := range subjNames {
			if subjID(i) == v.ID {
				return subject{sid: i}, true
			}
		}
	case *relationtuple.SubjectSet:
		r := w.shape.relIndexNS(v.Namespace, v.Relation)
		for o := 0; o < w.nObj; o++ {
			if objID(o) == v.Object && r >= 0 {
				return subject{isSet: true, sobj: o, srel: r}, true
			}
		}
	}
	return subject{}, false
}

// edgeInStore: does a row (parent set) -> child subject exist?
func (f *treeFacts) edgeInStore(p subject, c subject) bool {
	e := false
	for i, rw := range f.w.rows {
		m := f.rs.lhs[i][p.sobj][p.srel]
		if c.isSet {
			m = verifAnd(m, verifAnd(rw.isSet, verifAnd(verifEq(rw.sobj, c.sobj), verifEq(rw.srel, c.srel))))
		} else {
			m = verifAnd(m, verifAnd(verifNot(rw.isSet), verifEq(rw.sid, c.sid)))
		}
		e = verifOr(e, m)
	}
	return e
}

func (f *treeFacts) walk(t *relationtuple.Tree, depth int) {
	if t == nil {
		return
	}
	if depth > f.height {
		f.height = depth
	}
	s, ok := f.w.subjectOf(t.Subject)
	if !ok {
		f.bad = "tree contains a subject that is not in the store's pools"
		return
	}
	if s.isSet {
		f.setNode[s.sobj*len(f.w.shape.rels)+s.srel] = true
	} else {
		f.idLeaf[s.sid] = true
		if len(t.Children) > 0 {
			f.bad = "a subject id has children"
		}
	}
	if len(t.Children) > 0 {
		if t.Type == ketoapi.TreeNodeLeaf {
			f.bad = "a leaf has children"
		}
		id := s.sobj*len(f.w.shape.rels) + s.srel
		f.expanded[id]++
		for _, c := range t.Children {
			cs, ok := f.w.subjectOf(c.Subject)
			if !ok {
				f.bad = "tree contains a subject that is not in the store's pools"
				return
			}
			verifAssert(f.edgeInStore(s, cs), "C09: the tree has a parent->child edge that is not a stored relationship")
			f.walk(c, depth+1)
		}
	}
}

// HarnessC09: the real expand engine on K symbolic rows (schemaless
// namespace), page size 1, 2 or 100.
func HarnessC09() {
	sh := shapes(0)
	// schemaless, one namespace or two namespaces sharing relation and object names
	w := &world{shape: &sh[verifChoice(3)], nObj: verifParam("objs"), maxWidth: 64}
	verifNote("config: " + w.shape.name)
	nRel := len(w.shape.rels)
	w.rows = symRows(verifParam("K"), w.nObj, nRel)
	if verifParam("diamond") == 1 {
		// targeted family: all rows present, all but the last hold subject sets
		for i := range w.rows {
			verifAssume(w.rows[i].present)
			if i < len(w.rows)-1 {
				verifAssume(w.rows[i].isSet)
			} else {
				verifAssume(verifNot(w.rows[i].isSet))
			}
		}
	}
	G := verifChoice(verifParam("Gmax")) + 1
	w.maxDepth = G
	r := 0
	if verifParam("symbolicDepth") == 1 {
		r = verifInt()
	}
	verifPageSize = []int{100, 1, 2}[verifChoice(verifParam("pageSizes"))]
	root := subject{isSet: true, sobj: 0, srel: verifChoice(nRel)}
	deps := newDeps(w)
	tree, err := expand.NewEngine(deps).BuildTree(context.Background(), w.subjectValue(root), r)
	verifReach("c09.expanded")
	if err != nil {
		verifFail("C09: expand returned an error: " + err.Error())
		return
	}
	eff := G
	if verifConcretizeBool(verifAnd(verifLess(0, r), verifNot(verifLess(G, r)))) {
		eff = verifConcretize(r)
	}
	rs := newRefsem(w, subject{})
	f := &treeFacts{w: w, rs: rs, expanded: map[int]int{}, idLeaf: make([]bool, len(subjNames)), setNode: make([]bool, w.nObj*nRel)}
	f.walk(tree, 0)
	if f.bad != "" {
		verifFail("C09: malformed tree: " + f.bad)
		return
	}
	for _, n := range f.expanded {
		if n > 1 {
			verifFail("C09: a subject set is expanded more than once in the tree")
			return
		}
	}
	// a node with budget d is expanded only if d > 1, so the tree has at most eff-1 levels of edges
	verifAssert(f.height <= eff-1 || (f.height == 0), "C09: the tree is deeper than the effective max-depth allows")

	// completeness: everything reachable within eff-1 edges is in the tree
	k := len(w.rows)
	reach := newBools(w.nObj, nRel, false)
	reach[root.sobj][root.srel] = true
	idReach := make([]bool, len(subjNames))
	for e := 0; e < eff-1; e++ {
		next := newBools(w.nObj, nRel, false)
		for o := 0; o < w.nObj; o++ {
			for l := 0; l < nRel; l++ {
				next[o][l] = reach[o][l]
			}
		}
		for i := 0; i < k; i++ {
			from := false
			for o := 0; o < w.nObj; o++ {
				for l := 0; l < nRel; l++ {
					from = verifOr(from, verifAnd(reach[o][l], rs.lhs[i][o][l]))
				}
			}
			for o := 0; o < w.nObj; o++ {
				for l := 0; l < nRel; l++ {
					next[o][l] = verifOr(next[o][l], verifAnd(from, rs.ss[i][o][l]))
				}
			}
			for u := range subjNames {
				idReach[u] = verifOr(idReach[u], verifAnd(from, verifAnd(verifNot(w.rows[i].isSet), verifEq(w.rows[i].sid, u))))
			}
		}
		reach = next
	}
	if tree == nil {
		// nil tree: the root has no relationships (or depth 0 budget)
		empty := true
		for i := 0; i < k; i++ {
			empty = verifAnd(empty, verifNot(rs.lhs[i][root.sobj][root.srel]))
		}
		verifAssert(empty, "C09: expand returned no tree although the subject set has relationships")
		return
	}
	// classification for the known-findings file, computed from the stored rows
	// only: is some subject set reachable from the root along two different
	// edges (a diamond or a cycle: the precondition of F8), or is the reachable
	// graph tree-shaped?
	full := newBools(w.nObj, nRel, false)
	full[root.sobj][root.srel] = true
	for e := 0; e < k; e++ {
		for i := 0; i < k; i++ {
			from := false
			for o := 0; o < w.nObj; o++ {
				for l := 0; l < nRel; l++ {
					from = verifOr(from, verifAnd(full[o][l], rs.lhs[i][o][l]))
				}
			}
			for o := 0; o < w.nObj; o++ {
				for l := 0; l < nRel; l++ {
					full[o][l] = verifOr(full[o][l], verifAnd(from, rs.ss[i][o][l]))
				}
			}
		}
	}
	multi := false
	for o := 0; o < w.nObj; o++ {
		for l := 0; l < nRel; l++ {
			// incoming edges of (o,l) from reachable nodes; the root counts as entered once already
			n0, n1 := false, false // at least one, at least two
			if o == root.sobj && l == root.srel {
				n0 = true
			}
			for i := 0; i < k; i++ {
				from := false
				for o2 := 0; o2 < w.nObj; o2++ {
					for l2 := 0; l2 < nRel; l2++ {
						from = verifOr(from, verifAnd(full[o2][l2], rs.lhs[i][o2][l2]))
					}
				}
				edge := verifAnd(from, rs.ss[i][o][l])
				n1 = verifOr(n1, verifAnd(n0, edge))
				n0 = verifOr(n0, edge)
			}
			multi = verifOr(multi, n1)
		}
	}
	if verifConcretizeBool(multi) {
		verifTag("missing-in-a-graph-with-a-node-reachable-along-two-edges")
	} else {
		verifTag("missing-in-a-tree-shaped-graph")
	}
	for u := range subjNames {
		verifAssert(verifOr(verifNot(idReach[u]), f.idLeaf[u]), "C09: a subject id reachable within the effective depth is missing from the tree")
	}
	for o := 0; o < w.nObj; o++ {
		for l := 0; l < nRel; l++ {
			verifAssert(verifOr(verifNot(reach[o][l]), f.setNode[o*nRel+l]), "C09: a subject set reachable within the effective depth is missing from the tree")
		}
	}
	verifTag("")
	// cross-engine: with depth not binding the subject-id leaves are exactly the allowed subjects
	if verifParam("crossCheck") == 1 && eff >= k+2 {
		w.maxDepth = 12
		d2 := newDeps(w)
		res := runCheck(context.Background(), d2, w.tuple(root.sobj, root.srel, subject{sid: 0}), 0)
		if res.Err == nil && !verifLimitHit {
			verifCover("c09.cross-checked")
			verifAssert(f.idLeaf[0] == (res.Membership == checkgroup.IsMember), "C09: subject-id leaves of expand and the check engine disagree (depth not binding, no rewrites)")
		}
		closeDeps(d2)
	}
	closeDeps(deps)
}
