//go:build verif

package zzverif

import (
	"testing"

	"github.com/ory/keto/internal/schema"
)

// TestVerifShapes: every configuration of every family, rendered as OPL and
// run through the real parser and type checker, yields exactly the AST the
// symbolic runs use (the engines are then checked on configurations that real
// documents produce, and native replays see the same configuration).
func TestVerifShapes(t *testing.T) {
	for fam := 0; fam <= 5; fam++ {
		for _, s := range shapes(fam) {
			if len(s.ns.Relations) == 0 {
				continue
			}
			nn, errs := schema.Parse(s.renderOPL())
			if len(errs) != 0 {
				t.Errorf("VERIF-SHAPE-MISMATCH family %d %s: not accepted: %v\n%s", fam, s.name, errs[0], s.renderOPL())
				continue
			}
			if len(nn) != 1 || len(nn[0].Relations) != len(s.ns.Relations) {
				t.Errorf("VERIF-SHAPE-MISMATCH family %d %s: different number of namespaces/relations", fam, s.name)
				continue
			}
			for i, r := range s.ns.Relations {
				g := nn[0].Relations[i]
				if g.Name != r.Name || (g.SubjectSetRewrite == nil) != (r.SubjectSetRewrite == nil) ||
					(r.SubjectSetRewrite != nil && astString(g.SubjectSetRewrite) != astString(r.SubjectSetRewrite)) {
					t.Errorf("VERIF-SHAPE-MISMATCH family %d %s relation %s: parser %s, shape %s", fam, s.name, r.Name, astString(g.SubjectSetRewrite), astString(r.SubjectSetRewrite))
				}
			}
		}
	}
}
