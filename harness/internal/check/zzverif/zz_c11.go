//go:build verif

package zzverif

import (
	"context"
	"strings"

	"github.com/ory/keto/internal/namespace"
	"github.com/ory/keto/internal/schema"
)

// C11: a configuration that type-checks cannot fail at check time.

func pickS(opts ...string) string { return opts[verifChoice(len(opts))] }

// c11Program renders an OPL document with a choice at every reference site.
// ghosts counts references to names that are declared nowhere.
func c11Program() (doc string, ghosts int) {
	userX := verifChoice(2) == 1
	groupX := verifChoice(2) == 1
	docX := verifChoice(2) == 1
	members := pickS("User[]", "(User | SubjectSet<Group, \"members\">)[]")
	// (Doc[] and (User | Doc)[]: a relation typed with its own namespace)
	parents := pickS("Group[]", "SubjectSet<Group, \"members\">[]", "(User | Group)[]", "SubjectSet<Group, \"ghost\">[]", "Ghost[]", "Doc[]", "(User | Doc)[]",
		// undeclared names inside unions and the generic array spelling
		"(User | SubjectSet<Group, \"ghost\">)[]", "Array<SubjectSet<Group, \"ghost\">>", "Array<User | Ghost>",
		// quoted names with dots: (Group, "mem.ghost") is declared, ("Group.mem", "ghost") is not,
		// and the two pairs read the same when joined with a dot
		"(SubjectSet<Group, \"mem.ghost\"> | SubjectSet<\"Group.mem\", \"ghost\">)[]")
	dotted := strings.Contains(parents, "Group.mem")
	if strings.Contains(parents, "ghost") || strings.Contains(parents, "Ghost") {
		ghosts++
	}
	rel := pickS("members", "x", "ghost")
	body := ""
	switch verifChoice(4) {
	case 0:
		body = "this.related.parents.traverse((p) => p.related." + rel + ".includes(ctx.subject))"
		if rel == "ghost" {
			ghosts++
		}
	case 1:
		body = "this.related.parents.traverse((p) => p.permits." + rel + "(ctx))"
		if rel == "ghost" {
			ghosts++
		}
	case 2:
		body = "this.related." + pickS("viewers", "ghost") + ".includes(ctx.subject)"
		if strings.Contains(body, "ghost") {
			ghosts++
		}
	default:
		body = "this.permits." + pickS("edit", "ghost") + "(ctx)"
		if strings.Contains(body, "ghost") {
			ghosts++
		}
	}
	doc = "class User implements Namespace {\n"
	if userX {
		doc += "  related: { x: User[] }\n"
	}
	doc += "}\nclass Group implements Namespace {\n  related: {\n    members: " + members + "\n"
	if groupX {
		doc += "    x: User[]\n"
	}
	if dotted {
		doc += "    \"mem.ghost\": User[]\n"
	}
	doc += "  }\n}\n"
	if dotted {
		doc += "class \"Group.mem\" implements Namespace {\n  related: { y: User[] }\n}\n"
	}
	doc += "class Doc implements Namespace {\n  related: {\n    parents: " + parents + "\n    viewers: User[]\n" + map[bool]string{true: "    x: User[]\n", false: ""}[docX] + "  }\n" +
		"  permits = {\n    edit: (ctx) => this.related.viewers.includes(ctx.subject),\n    view: (ctx) => " + body + ",\n  }\n}\n"
	return doc, ghosts
}

// c11Shape builds the relation table of the parsed namespaces: every declared
// relation plus the empty relation of every namespace.
func c11Shape(nss []namespace.Namespace) *cfgShape {
	s := &cfgShape{name: "parsed"}
	for i := range nss {
		n := nss[i]
		s.nss = append(s.nss, &n)
		for _, r := range n.Relations {
			s.rels = append(s.rels, r.Name)
			s.relNS = append(s.relNS, n.Name)
			if r.SubjectSetRewrite != nil && hasNot(r.SubjectSetRewrite) {
				s.hasNot = true
			}
		}
		s.rels = append(s.rels, "")
		s.relNS = append(s.relNS, n.Name)
	}
	return s
}

// conforms: the row's subject fits a declared type of the row's relation.
func (w *world) conforms(rw row) bool {
	ok := false
	for l := range w.shape.rels {
		rel := w.shape.relation(l)
		if rel == nil || rel.SubjectSetRewrite != nil {
			// rows are stored on declared relations only (not on "" and not on permissions)
			continue
		}
		fits := verifNot(rw.isSet) // subject ids are untyped
		for _, t := range rel.Types {
			if k := w.shape.relIndexNS(t.Namespace, t.Relation); k >= 0 {
				fits = verifOr(fits, verifAnd(rw.isSet, verifEq(rw.srel, k)))
			}
		}
		ok = verifOr(ok, verifAnd(verifEq(rw.rel, l), fits))
	}
	return ok
}

func HarnessC11() {
	doc, ghosts := c11Program()
	verifNote(doc)
	nss, errs := schema.Parse(doc)
	if ghosts > 0 {
		verifReach("c11.undeclared-reference")
		verifAssert(len(errs) > 0, "C11: a document that references an undeclared namespace or relation is accepted")
		found := false
		for _, e := range errs {
			m := e.ToAPI().Message
			if strings.Contains(m, "ghost") || strings.Contains(m, "Ghost") {
				found = true
			}
		}
		if len(errs) > 0 {
			verifAssert(found, "C11: no error names the undeclared reference")
		}
		return
	}
	if len(errs) > 0 {
		verifCover("c11.rejected-without-undeclared-names")
		return
	}
	verifReach("c11.accepted")
	w := &world{opl: doc, shape: c11Shape(nss), strict: verifChoice(2) == 1, nObj: 2, maxDepth: 8, maxWidth: 64}
	nRel := len(w.shape.rels)
	w.rows = symRows(verifParam("K"), w.nObj, nRel)
	for _, rw := range w.rows {
		verifAssume(verifOr(verifNot(rw.present), w.conforms(rw)))
	}
	// query on a declared (namespace, relation)
	var declared []int
	for l := range w.shape.rels {
		if w.shape.rels[l] != "" {
			declared = append(declared, l)
		}
	}
	qr := declared[verifChoice(len(declared))]
	deps := newDeps(w)
	res := runCheck(context.Background(), deps, w.tuple(0, qr, subject{sid: 0}), 0)
	closeDeps(deps)
	tag := "plain"
	if strings.Contains(doc, "parents: SubjectSet<") && strings.Contains(doc, ".traverse(") {
		tag = "traverse-over-subject-set-typed-relation"
	}
	verifTag(tag)
	if res.Err != nil {
		verifFail("C11: a type-checked configuration fails at check time on conforming data: " + res.Err.Error())
	}
}
