//go:build verif

package zzverif

import (
	"context"

	"github.com/ory/keto/internal/check/checkgroup"
	"github.com/ory/keto/ketoapi"
)

func bothOrNeither(a, b bool) bool {
	return verifOr(verifAnd(a, b), verifAnd(verifNot(a), verifNot(b)))
}

func symWorld() (*world, int, int, subject) {
	sh := shapes(verifParam("family"))
	if n := verifParam("shapes"); n > 0 && n < len(sh) {
		sh = sh[:n]
	}
	idx := verifChoice(len(sh))
	strict := false
	switch verifParam("modes") {
	case 0:
		strict = verifChoice(2) == 1
	case 2:
		strict = true
	}
	w := &world{shape: &sh[idx], strict: strict, nObj: verifParam("objs"), maxDepth: verifParam("G"), maxWidth: verifParam("W")}
	verifNote("config: " + w.shape.name)
	if strict {
		verifNote("mode: strict")
	}
	nRel := len(w.shape.rels)
	w.rows = symRows(verifParam("K"), w.nObj, nRel)
	// symmetry: objects and subject ids are interchangeable names (the engine
	// only compares them for equality), so the query is about o0 and u0
	// without loss of generality; the relation is chosen.
	qo := 0
	qr := verifChoice(nRel)
	var qs subject
	if verifParam("setSubjects") == 1 && verifChoice(2) == 1 {
		qs = subject{isSet: true, sobj: verifChoice(w.nObj), srel: verifChoice(nRel)}
	} else {
		qs = subject{sid: 0}
	}
	return w, qo, qr, qs
}

// HarnessC01: Check(C, m, T, q) == RefSem(C, m, T)(q) whenever no limit was hit.
func HarnessC01() {
	w, qo, qr, qs := symWorld()
	deps := newDeps(w)
	res := runCheck(context.Background(), deps, w.tuple(qo, qr, qs), 0)
	closeDeps(deps)
	verifReach("c01.checked")
	rs := newRefsem(w, qs)
	rs.solve(verifParam("alts"))
	lo, up := rs.low[qo][qr], rs.up[qo][qr]
	determined := bothOrNeither(lo, up)
	if w.shape.hasNot {
		// A2: data with a cycle through a negation is outside the claim
		determined = verifAnd(determined, verifNot(rs.negCycle(qo, qr)))
	}
	allowed := res.Membership == checkgroup.IsMember
	if res.Err != nil {
		verifFail("C01: check returned an error on a declared relation: " + res.Err.Error())
		return
	}
	if verifLimitHit || verifWidthHit {
		verifCover("c01.limit-hit")
		return
	}
	// class F17: strict mode and a stored direct tuple (for the query subject)
	// whose relation is a permission (has a rewrite)
	f17 := f17Class(w, rs)
	// class F7: the engine skipped a subject set as "already visited" although
	// the configuration combines results with && or !
	if verifVisitedSkips > 0 && w.shape.nonMonotoneOrConjunctive() {
		verifTag("visited-skip-under-and-or-not")
	}
	if allowed {
		verifCover("c01.allowed")
		ok := verifOr(verifNot(determined), lo)
		verifAssert(verifOr(f17, ok), "C01: engine answers allowed, the relationship-graph semantics says denied")
		verifAssert(verifOr(verifNot(f17), ok), "C01: engine answers allowed, the relationship-graph semantics says denied (strict mode, direct tuple stored on a permission)")
	} else {
		verifCover("c01.denied")
		ok := verifOr(verifNot(determined), verifNot(lo))
		verifAssert(verifOr(f17, ok), "C01: engine answers denied, the relationship-graph semantics says allowed")
		verifAssert(verifOr(verifNot(f17), ok), "C01: engine answers denied, the relationship-graph semantics says allowed (strict mode, direct tuple stored on a permission)")
	}
}

func sameDecision(a, b checkgroup.Result) bool {
	return a.Membership == b.Membership && (a.Err == nil) == (b.Err == nil)
}

// HarnessC02Clamp: a request depth r behaves exactly like request depth 0 on a
// server whose global limit is eff(r, G) = (r <= 0 || r > G) ? G : r.
// r is a fully symbolic int; G is chosen from 1..Gmax.
func HarnessC02Clamp() {
	w, qo, qr, qs := symWorld()
	G := verifChoice(verifParam("Gmax")) + 1
	w.maxDepth = G
	r := verifInt()
	deps := newDeps(w)
	res1 := runCheck(context.Background(), deps, w.tuple(qo, qr, qs), r)
	// reference clamp
	eff := G
	if verifConcretizeBool(verifAnd(verifLess(0, r), verifNot(verifLess(G, r)))) {
		eff = verifConcretize(r)
	}
	w.maxDepth = eff
	deps2 := newDeps(w)
	res2 := runCheck(context.Background(), deps2, w.tuple(qo, qr, qs), 0)
	closeDeps(deps)
	closeDeps(deps2)
	verifReach("c02.clamp")
	verifAssert(sameDecision(res1, res2), "C02: request depth r does not behave like global depth eff(r,G)")
}

// HarnessC02FailClosed: whatever is allowed under depth/width limits is allowed
// by the unbounded semantics.
func HarnessC02FailClosed() {
	w, qo, qr, qs := symWorld()
	w.maxDepth = verifChoice(verifParam("Gmax")) + 1
	w.maxWidth = verifChoice(verifParam("Wmax")) + 1
	r := 0
	if verifParam("symbolicDepth") == 1 {
		r = verifInt()
	}
	deps := newDeps(w)
	res := runCheck(context.Background(), deps, w.tuple(qo, qr, qs), r)
	closeDeps(deps)
	verifReach("c02.checked")
	if verifNative() {
		println("native C02: G", w.maxDepth, "W", w.maxWidth, "membership", int(res.Membership), "err", res.Err != nil)
	}
	if res.Err != nil || res.Membership != checkgroup.IsMember {
		verifCover("c02.not-allowed")
		return
	}
	verifCover("c02.allowed")
	rs := newRefsem(w, qs)
	rs.solve(verifParam("alts"))
	lo, up := rs.low[qo][qr], rs.up[qo][qr]
	determined := bothOrNeither(lo, up)
	if w.shape.hasNot {
		determined = verifAnd(determined, verifNot(rs.negCycle(qo, qr)))
	}
	f17 := f17Class(w, rs)
	if (verifLimitHit || verifWidthHit) && w.shape.hasNot {
		verifTag("limit-hit-under-negation")
	} else if verifVisitedSkips > 0 && w.shape.nonMonotoneOrConjunctive() {
		verifTag("visited-skip-under-and-or-not")
	}
	ok := verifOr(verifNot(determined), lo)
	verifAssert(verifOr(f17, ok), "C02: allowed under a depth/width limit, denied by the unbounded semantics")
	verifAssert(verifOr(verifNot(f17), ok), "C02: allowed under a limit, denied by the unbounded semantics (strict mode, direct tuple stored on a permission)")
}

// f17Class: strict mode and a stored direct tuple (for the query subject)
// whose relation is a permission.
func f17Class(w *world, rs *refsem) bool {
	f17 := false
	if w.strict {
		for i, rw := range w.rows {
			onPerm := false
			for l := range w.shape.rels {
				if rel := w.shape.relation(l); rel != nil && rel.SubjectSetRewrite != nil {
					onPerm = verifOr(onPerm, verifEq(rw.rel, l))
				}
			}
			f17 = verifOr(f17, verifAnd(rw.present, verifAnd(rs.isQ[i], onPerm)))
		}
	}
	return f17
}

// HarnessC03: the k-th storage call fails (transiently or persistently): the
// result is an error or the fault-free answer, never "allowed" for a request
// that is denied fault-free, and never "allowed" together with an error.
func HarnessC03() {
	w, qo, qr, qs := symWorld()
	deps := newDeps(w)
	verifFailAt, verifPersistent = 0, false
	res0 := runCheck(context.Background(), deps, w.tuple(qo, qr, qs), 0)
	n0 := verifCalls
	if res0.Err != nil || verifLimitHit {
		return
	}
	// faulty run on the same store
	deps2 := newDeps(w)
	verifFailAt = verifIntRange(1, n0+2)
	verifPersistent = verifBool()
	verifFaultCancelled = verifChoice(2) == 1
	cls := "storage-fault"
	if w.shape.hasTTU() {
		cls += "+traverse"
	}
	if w.shape.hasNot {
		cls += "+negation"
	}
	verifTag(cls)
	res := runCheck(context.Background(), deps2, w.tuple(qo, qr, qs), 0)
	faults := verifFaults
	verifFailAt, verifPersistent = 0, false
	closeDeps(deps)
	closeDeps(deps2)
	if faults == 0 {
		return
	}
	verifReach("c03.fault-injected")
	verifAssert(!(res0.Membership != checkgroup.IsMember && res.Membership == checkgroup.IsMember), "C03: a failed storage call turned a denied request into allowed")
	verifAssert(!(res.Err != nil && res.Membership == checkgroup.IsMember), "C03: result carries an error and says allowed")
	verifAssert(res.Err != nil || sameDecision(res, res0), "C03: a failed storage call changed the answer without an error")
}

func pow(b, e int) int {
	r := 1
	for i := 0; i < e; i++ {
		r *= b
	}
	return r
}

// HarnessC15: every check returns after a bounded number of storage calls,
// also when a storage call fails or the request is cancelled at any storage
// call; after the call returned and the request context was released no
// goroutine started on its behalf remains.
func HarnessC15() {
	w, qo, qr, qs := symWorld()
	ctx, cancel := context.WithCancel(context.Background())
	deps := newDeps(w)
	maxCalls := verifParam("maxCalls")
	verifCancel = cancel
	verifCancelAt, verifFailAt, verifPersistent = 0, 0, false
	cls := w.shape.name + " | plain"
	switch verifChoice(3) {
	case 1:
		// cancellation before the start (0) or during storage call c
		c := verifIntRange(0, maxCalls)
		if verifConcretizeBool(verifEq(c, 0)) {
			cancel()
		} else {
			verifCancelAt = c
		}
		cls = w.shape.name + " | cancelled"
	case 2:
		verifFailAt = verifIntRange(1, maxCalls)
		verifPersistent = verifBool()
		cls = w.shape.name + " | storage-fault"
	}
	if w.shape.hasTTU() {
		cls += "+traverse"
	}
	if w.shape.hasNot {
		cls += "+negation"
	}
	verifTag(cls)
	verifGoroutineMark()
	res := runCheck(ctx, deps, w.tuple(qo, qr, qs), 0)
	verifReach("c15.returned")
	calls := verifCalls
	verifCancelAt, verifFailAt, verifPersistent, verifCancel = 0, 0, false, nil
	nodes := 3 + len(w.shape.rels) + len(w.rows)
	verifAssert(calls <= pow(nodes, w.maxDepth), "C15: number of storage calls exceeds (3+|relations|+K)^depth")
	if ctx.Err() != nil {
		verifCover("c15.cancelled-during-check")
	}
	_ = res
	// release the request context and wait for quiescence
	cancel()
	leaked := verifQuiesce()
	verifTag(cls + "+after-return")
	verifAssert(leaked == 0, "C15: goroutines started by the check are still alive after it returned and its context was cancelled")
	closeDeps(deps)
}

// HarnessC14Isolation: two checks issued concurrently against one engine and
// one store each return what they return when run alone (delay-bounded
// schedules), and no two conflicting memory accesses of different goroutines
// are unordered by happens-before (race analysis of the executor).
func HarnessC14Isolation() {
	w, qo, qr, qs := symWorld()
	nRel := len(w.shape.rels)
	qr2 := verifChoice(nRel)
	qo2 := verifChoice(w.nObj)
	deps := newDeps(w)
	e := newEngine(deps)
	ctx := context.Background()
	t1, t2 := w.tuple(qo, qr, qs), w.tuple(qo2, qr2, subject{sid: 1})
	alone1 := e.CheckRelationTuple(ctx, t1, 0)
	alone2 := e.CheckRelationTuple(ctx, t2, 0)
	if verifLimitHit {
		return
	}
	var r1, r2 checkgroup.Result
	done := make(chan struct{}, 2)
	go func() { r1 = e.CheckRelationTuple(ctx, t1, 0); done <- struct{}{} }()
	go func() { r2 = e.CheckRelationTuple(ctx, t2, 0); done <- struct{}{} }()
	<-done
	<-done
	verifReach("c14.concurrent")
	verifAssert(sameDecision(r1, alone1), "C14: a check returns a different answer when another check runs concurrently")
	verifAssert(sameDecision(r2, alone2), "C14: a check returns a different answer when another check runs concurrently")
	closeDeps(deps)
}

// HarnessC14Batch: the entries of one batch check (which run concurrently and
// share the request context) each get the answer the same check gets alone.
func HarnessC14Batch() {
	w, qo, qr, qs := symWorld()
	nRel := len(w.shape.rels)
	qo2, qr2 := qo, qr
	if verifChoice(2) == 1 {
		qo2, qr2 = verifChoice(w.nObj), verifChoice(nRel)
	}
	deps := newDeps(w)
	e := newEngine(deps)
	ctx := context.Background()
	alone1 := e.CheckRelationTuple(ctx, w.tuple(qo, qr, qs), 0)
	alone2 := e.CheckRelationTuple(ctx, w.tuple(qo2, qr2, qs), 0)
	if verifLimitHit {
		return
	}
	res, err := e.BatchCheck(ctx, []*ketoapi.RelationTuple{w.apiTuple(qo, qr, qs), w.apiTuple(qo2, qr2, qs)}, 0)
	verifReach("c14.batch")
	if err != nil || len(res) != 2 {
		verifFail("C14: a batch check of two well-formed entries fails as a whole or does not return one result per entry")
		return
	}
	verifAssert(sameDecision(res[0], alone1), "C14: a batch entry gets a different answer than the same check alone")
	verifAssert(sameDecision(res[1], alone2), "C14: a batch entry gets a different answer than the same check alone")
	closeDeps(deps)
}

// HarnessC02WidthRespected: of the subject sets one expansion returns, the
// engine follows at most max-width - 1 when there are more than max-width
// (ghost accounting: calls of CheckAndAddVisited vs. what the traversal
// results allow).
func HarnessC02WidthRespected() {
	w, qo, qr, qs := symWorld()
	w.maxDepth = verifChoice(verifParam("Gmax")) + 1
	w.maxWidth = verifChoice(verifParam("Wmax")) + 1
	deps := newDeps(w)
	_ = runCheck(context.Background(), deps, w.tuple(qo, qr, qs), 0)
	closeDeps(deps)
	verifReach("c02.width")
	if verifWidthHit {
		verifCover("c02.width-binding")
	}
	verifAssert(verifVisitedCalls <= verifExpandAllowance, "C02: the engine follows more subject sets of one expansion than max-width allows")
}
