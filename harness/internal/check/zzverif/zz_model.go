//go:build verif

// Package zzverif holds the harnesses for the permission engine (C01, C02,
// C03, C15 ...). It only uses the engine's public API: the real
// check.Engine, checkgroup and rewrites run on top of a storage model
// (symbolic runs) or on the real SQLite-backed persister (native replay).
package zzverif

import (
	"context"

	"github.com/gofrs/uuid"

	"github.com/ory/keto/internal/check"
	"github.com/ory/keto/internal/check/checkgroup"
	"github.com/ory/keto/internal/namespace"
	"github.com/ory/keto/internal/namespace/ast"
	"github.com/ory/keto/internal/relationtuple"
	"github.com/ory/keto/ketoapi"
)

// ---------------------------------------------------------------------------
// pools (concrete): one namespace "N" (optionally a second, "M"), objects
// o0..o2, subject ids u0,u1.

const nsN = "N"

var (
	objNames  = []string{"o0", "o1", "o2", "o3"}
	subjNames = []string{"u0", "u1"}
)

func objID(i int) uuid.UUID  { return uuid.NewV5(uuid.Nil, objNames[i]) }
func subjID(i int) uuid.UUID { return uuid.NewV5(uuid.Nil, subjNames[i]) }

// ---------------------------------------------------------------------------
// configurations: concrete ASTs over relations r0,r1 and permissions p0,p1

type cfgShape struct {
	name      string
	rels      []string // all declared relation names, in order (index = rel id)
	relNS     []string // namespace of each relation (nil: all in namespace N)
	ns        *namespace.Namespace
	nss       []*namespace.Namespace // multi-namespace configurations (C11); nil: just ns
	hasNot    bool
	recursive bool
}

func (s *cfgShape) nsOf(rel int) string {
	if s.relNS == nil {
		return nsN
	}
	return s.relNS[rel]
}

func (s *cfgShape) namespaces() []*namespace.Namespace {
	if s.nss != nil {
		return s.nss
	}
	return []*namespace.Namespace{s.ns}
}

// relIndexNS finds the relation index of (namespace, relation name).
func (s *cfgShape) relIndexNS(ns, name string) int {
	for i, r := range s.rels {
		if r == name && s.nsOf(i) == ns {
			return i
		}
	}
	return -1
}

func inc(r string) ast.Child  { return &ast.ComputedSubjectSet{Relation: r} }
func ttu(r, c string) ast.Child { return &ast.TupleToSubjectSet{Relation: r, ComputedSubjectSetRelation: c} }
func not(c ast.Child) ast.Child { return &ast.InvertResult{Child: c} }
func or(cs ...ast.Child) *ast.SubjectSetRewrite {
	return &ast.SubjectSetRewrite{Operation: ast.OperatorOr, Children: cs}
}
// and mirrors what the real parser builds for "x && y ...": its first operand,
// unless it is a parenthesised group, is wrapped as or[x] (Child.AsRewrite) and
// only the top-level expression is simplified, so the wrapper stays.
func and(cs ...ast.Child) *ast.SubjectSetRewrite {
	if _, group := cs[0].(*ast.SubjectSetRewrite); !group {
		cs = append([]ast.Child{or(cs[0])}, cs[1:]...)
	}
	return &ast.SubjectSetRewrite{Operation: ast.OperatorAnd, Children: cs}
}

// gor is a parenthesised "(x || y ...)" group below another operator: the
// parser leaves it as or[or[x], y, ...].
func gor(cs ...ast.Child) *ast.SubjectSetRewrite {
	return or(append([]ast.Child{or(cs[0])}, cs[1:]...)...)
}

// plain relation typed [N] (subject ids of namespace N only)
func relPlain(name string) ast.Relation {
	return ast.Relation{Name: name, Types: []ast.RelationType{{Namespace: nsN}}}
}

// relation typed [N, SubjectSet<N, via>]
func relSet(name, via string) ast.Relation {
	return ast.Relation{Name: name, Types: []ast.RelationType{{Namespace: nsN}, {Namespace: nsN, Relation: via}}}
}

func perm(name string, rw *ast.SubjectSetRewrite) ast.Relation {
	return ast.Relation{Name: name, SubjectSetRewrite: rw}
}

func mkShape(name string, rels ...ast.Relation) cfgShape {
	s := cfgShape{name: name, ns: &namespace.Namespace{Name: nsN, Relations: rels}}
	for _, r := range rels {
		s.rels = append(s.rels, r.Name)
		if r.SubjectSetRewrite != nil && hasNot(r.SubjectSetRewrite) {
			s.hasNot = true
		}
	}
	return s
}

func hasNot(c ast.Child) bool {
	switch n := c.(type) {
	case *ast.InvertResult:
		return true
	case *ast.SubjectSetRewrite:
		for _, k := range n.Children {
			if hasNot(k) {
				return true
			}
		}
	}
	return false
}

// shapes returns the configurations of a family.
//
//	0: schemaless + plain relations
//	1: every operator pair over includes/traverse/permits (quick set)
//	2: && / ! below a subject-set expansion (the F7 family)
//	3: recursive permissions (termination, C15)
func shapes(family int) []cfgShape {
	// r0 may hold subject sets N:o#r0 (declared), r1 is typed [N] only, so
	// every shape also passes keto's own type checker (traverse goes over r1)
	r0, r1 := relSet("r0", "r0"), relPlain("r1")
	switch family {
	case 0:
		return []cfgShape{
			{name: "schemaless", rels: []string{"r0", "r1"}, ns: &namespace.Namespace{Name: nsN}},
			// subject sets with the empty relation ("N:o#"), as OPL-typed object references are stored
			{name: "schemaless-with-empty-relation", rels: []string{"r0", ""}, ns: &namespace.Namespace{Name: nsN}},
			// two namespaces that use the same relation name (and share the object names)
			{name: "schemaless-two-namespaces", rels: []string{"r0", "r0"}, relNS: []string{nsN, "M"}, ns: &namespace.Namespace{Name: nsN},
				nss: []*namespace.Namespace{{Name: nsN}, {Name: "M"}}},
			mkShape("plain", relPlain("r0"), relPlain("r1")),
			mkShape("subject-set-typed", r0, r1),
		}
	case 1:
		return []cfgShape{
			mkShape("p=inc(r0)", r0, r1, perm("p0", or(inc("r0")))),
			mkShape("p=inc(r0)||inc(r1)", r0, r1, perm("p0", or(inc("r0"), inc("r1")))),
			mkShape("p=inc(r0)&&inc(r1)", r0, r1, perm("p0", and(inc("r0"), inc("r1")))),
			mkShape("p=!inc(r0)", r0, r1, perm("p0", or(not(inc("r0"))))),
			mkShape("p=inc(r0)&&!inc(r1)", r0, r1, perm("p0", and(inc("r0"), not(inc("r1"))))),
			mkShape("p=inc(r0)||!inc(r1)", r0, r1, perm("p0", or(inc("r0"), not(inc("r1"))))),
			mkShape("p=ttu(r1->r0)", r0, r1, perm("p0", or(ttu("r1", "r0")))),
			mkShape("p=ttu(r1->r0)||inc(r0)", r0, r1, perm("p0", or(ttu("r1", "r0"), inc("r0")))),
			mkShape("p=ttu(r1->r0)&&inc(r0)", r0, r1, perm("p0", and(ttu("r1", "r0"), inc("r0")))),
			mkShape("p=!ttu(r1->r0)", r0, r1, perm("p0", or(not(ttu("r1", "r0"))))),
			mkShape("p1=permits(p0);p0=inc(r0)", r0, r1, perm("p0", or(inc("r0"))), perm("p1", or(inc("p0")))),
			mkShape("p1=!permits(p0);p0=inc(r0)||inc(r1)", r0, r1, perm("p0", or(inc("r0"), inc("r1"))), perm("p1", or(not(inc("p0"))))),
			mkShape("p1=permits(p0)&&inc(r1);p0=inc(r0)", r0, r1, perm("p0", or(inc("r0"))), perm("p1", and(inc("p0"), inc("r1")))),
			mkShape("p1=ttu(r1->p0);p0=inc(r0)", r0, r1, perm("p0", or(inc("r0"))), perm("p1", or(ttu("r1", "p0")))),
			mkShape("p=(inc(r0)&&inc(r1))||ttu(r1->r0)", r0, r1, perm("p0", or(and(inc("r0"), inc("r1")), ttu("r1", "r0")))),
			mkShape("p=(inc(r0)||inc(r1))&&!ttu(r1->r0)", r0, r1, perm("p0", and(gor(inc("r0"), inc("r1")), not(ttu("r1", "r0"))))),
			mkShape("p=!(inc(r0)&&inc(r1))", r0, r1, perm("p0", or(not(and(inc("r0"), inc("r1")))))),
			mkShape("p=!(inc(r0)||inc(r1))", r0, r1, perm("p0", or(not(gor(inc("r0"), inc("r1")))))),
			mkShape("p=(inc(r0)||inc(r1))&&(inc(r1)||inc(r0))", r0, r1, perm("p0", and(gor(inc("r0"), inc("r1")), gor(inc("r1"), inc("r0"))))),
			mkShape("p=(inc(r0)&&inc(r1))||(ttu(r1->r0)&&inc(r0))", r0, r1, perm("p0", or(and(inc("r0"), inc("r1")), and(ttu("r1", "r0"), inc("r0"))))),
		}
	case 2:
		// r0 may hold subject sets N:o#p0; p0 puts && / ! over r1
		r0p := ast.Relation{Name: "r0", Types: []ast.RelationType{{Namespace: nsN}, {Namespace: nsN, Relation: "p0"}}}
		r1s := relSet("r1", "r1")
		_ = r1
		return []cfgShape{
			mkShape("expand->p0=inc(r1)&&inc(r1)", r0p, r1s, perm("p0", and(inc("r1"), inc("r1")))),
			mkShape("expand->p0=!inc(r1)", r0p, r1s, perm("p0", or(not(inc("r1"))))),
			mkShape("expand->p0=inc(r1)||inc(r1)", r0p, r1s, perm("p0", or(inc("r1"), inc("r1")))),
		}
	case 4:
		// quick operator set
		return []cfgShape{
			mkShape("p=inc(r0)||inc(r1)", r0, r1, perm("p0", or(inc("r0"), inc("r1")))),
			mkShape("p=inc(r0)&&inc(r1)", r0, r1, perm("p0", and(inc("r0"), inc("r1")))),
			mkShape("p=!inc(r0)", r0, r1, perm("p0", or(not(inc("r0"))))),
			mkShape("p=inc(r0)&&!inc(r1)", r0, r1, perm("p0", and(inc("r0"), not(inc("r1"))))),
			mkShape("p=ttu(r1->r0)", r0, r1, perm("p0", or(ttu("r1", "r0")))),
			mkShape("p=!ttu(r1->r0)", r0, r1, perm("p0", or(not(ttu("r1", "r0"))))),
			mkShape("p1=permits(p0)&&inc(r1);p0=inc(r0)", r0, r1, perm("p0", or(inc("r0"))), perm("p1", and(inc("p0"), inc("r1")))),
			// && whose operands are all nested rewrites (they see the depth limit one level earlier)
			mkShape("p=(inc(r0)||inc(r1))&&(inc(r1)||inc(r0))", r0, r1, perm("p0", and(gor(inc("r0"), inc("r1")), gor(inc("r1"), inc("r0"))))),
		}
	case 5:
		// traversal set (two rows are needed for a traversal to succeed)
		return []cfgShape{
			mkShape("p=ttu(r1->r0)", r0, r1, perm("p0", or(ttu("r1", "r0")))),
			mkShape("p=!ttu(r1->r0)", r0, r1, perm("p0", or(not(ttu("r1", "r0"))))),
		}
	case 3:
		return []cfgShape{
			mkShape("p0=permits(p1);p1=permits(p0)", r0, r1, perm("p0", or(inc("p1"))), perm("p1", or(inc("p0")))),
			mkShape("p0=permits(p1)||inc(r0);p1=permits(p0)", r0, r1, perm("p0", or(inc("p1"), inc("r0"))), perm("p1", or(inc("p0")))),
			mkShape("p0=permits(p1)&&inc(r0);p1=permits(p0)&&inc(r0)", r0, r1, perm("p0", and(inc("p1"), inc("r0"))), perm("p1", and(inc("p0"), inc("r0")))),
			mkShape("p0=!permits(p1);p1=!permits(p0)", r0, r1, perm("p0", or(not(inc("p1")))), perm("p1", or(not(inc("p0"))))),
			mkShape("p0=ttu(r1->p0)||inc(r0)", r0, r1, perm("p0", or(ttu("r1", "p0"), inc("r0")))),
		}
	}
	return nil
}

// renderOPL renders the shape as an OPL document (used by native replay, where
// the configuration goes through the real parser and type checker).
func (s *cfgShape) renderOPL() string {
	isPerm := map[string]bool{}
	for _, r := range s.ns.Relations {
		if r.SubjectSetRewrite != nil {
			isPerm[r.Name] = true
		}
	}
	doc := "class " + nsN + " implements Namespace {\n  related: {\n"
	for _, r := range s.ns.Relations {
		if r.SubjectSetRewrite != nil {
			continue
		}
		doc += "    " + r.Name + ": ("
		for i, t := range r.Types {
			if i > 0 {
				doc += " | "
			}
			if t.Relation == "" {
				doc += t.Namespace
			} else {
				doc += "SubjectSet<" + t.Namespace + ", \"" + t.Relation + "\">"
			}
		}
		doc += ")[]\n"
	}
	doc += "  }\n  permits = {\n"
	// minimal parentheses, so that the real parser builds exactly this AST:
	// atoms and !atom are bare, nested rewrites are parenthesised
	var expr func(c ast.Child, top bool) string
	expr = func(c ast.Child, top bool) string {
		switch n := c.(type) {
		case *ast.ComputedSubjectSet:
			if isPerm[n.Relation] {
				return "this.permits." + n.Relation + "(ctx)"
			}
			return "this.related." + n.Relation + ".includes(ctx.subject)"
		case *ast.TupleToSubjectSet:
			if isPerm[n.ComputedSubjectSetRelation] {
				return "this.related." + n.Relation + ".traverse((x) => x.permits." + n.ComputedSubjectSetRelation + "(ctx))"
			}
			return "this.related." + n.Relation + ".traverse((x) => x.related." + n.ComputedSubjectSetRelation + ".includes(ctx.subject))"
		case *ast.InvertResult:
			if _, isRw := n.Child.(*ast.SubjectSetRewrite); isRw {
				return "!" + expr(n.Child, false)
			}
			return "!" + expr(n.Child, false)
		case *ast.SubjectSetRewrite:
			if n.Operation != ast.OperatorAnd && len(n.Children) == 1 {
				// or[x]: the wrapper the parser puts around a first operand
				return expr(n.Children[0], top)
			}
			op := " || "
			if n.Operation == ast.OperatorAnd {
				op = " && "
			}
			out := ""
			for i, k := range n.Children {
				if i > 0 {
					out += op
				}
				out += expr(k, false)
			}
			if top {
				return out
			}
			return "(" + out + ")"
		}
		return "?"
	}
	for _, r := range s.ns.Relations {
		if r.SubjectSetRewrite == nil {
			continue
		}
		doc += "    " + r.Name + ": (ctx) => " + expr(r.SubjectSetRewrite, true) + ",\n"
	}
	doc += "  }\n}\n"
	return doc
}

func hasAnd(c ast.Child) bool {
	switch n := c.(type) {
	case *ast.InvertResult:
		return hasAnd(n.Child)
	case *ast.SubjectSetRewrite:
		if n.Operation == ast.OperatorAnd && len(n.Children) > 1 {
			return true
		}
		for _, k := range n.Children {
			if hasAnd(k) {
				return true
			}
		}
	}
	return false
}

func hasTTU(c ast.Child) bool {
	switch n := c.(type) {
	case *ast.TupleToSubjectSet:
		return true
	case *ast.InvertResult:
		return hasTTU(n.Child)
	case *ast.SubjectSetRewrite:
		for _, k := range n.Children {
			if hasTTU(k) {
				return true
			}
		}
	}
	return false
}

func (s *cfgShape) hasTTU() bool {
	for _, r := range s.ns.Relations {
		if r.SubjectSetRewrite != nil && hasTTU(r.SubjectSetRewrite) {
			return true
		}
	}
	return false
}

func (s *cfgShape) nonMonotoneOrConjunctive() bool {
	if s.hasNot {
		return true
	}
	for _, r := range s.ns.Relations {
		if r.SubjectSetRewrite != nil && hasAnd(r.SubjectSetRewrite) {
			return true
		}
	}
	return false
}

// astString is a canonical rendering of a rewrite (to compare the shape with
// what the real parser produced from renderOPL).
func astString(c ast.Child) string {
	switch n := c.(type) {
	case *ast.ComputedSubjectSet:
		return "css(" + n.Relation + ")"
	case *ast.TupleToSubjectSet:
		return "ttu(" + n.Relation + "," + n.ComputedSubjectSetRelation + ")"
	case *ast.InvertResult:
		return "not(" + astString(n.Child) + ")"
	case *ast.SubjectSetRewrite:
		if n == nil {
			return "nil"
		}
		out := "or["
		if n.Operation == ast.OperatorAnd {
			out = "and["
		}
		for _, k := range n.Children {
			out += astString(k) + ";"
		}
		return out + "]"
	}
	return "?"
}

func (s *cfgShape) relIndex(name string) int {
	for i, r := range s.rels {
		if r == name {
			return i
		}
	}
	return -1
}

func (s *cfgShape) relation(i int) *ast.Relation {
	if i < 0 {
		return nil
	}
	for _, n := range s.namespaces() {
		if n.Name != s.nsOf(i) {
			continue
		}
		for k := range n.Relations {
			if n.Relations[k].Name == s.rels[i] {
				return &n.Relations[k]
			}
		}
	}
	return nil
}

// ---------------------------------------------------------------------------
// the store: K row slots with symbolic content (index space)

type row struct {
	present bool
	obj     int
	rel     int
	isSet   bool
	sid     int // subject id index (when !isSet)
	sobj    int // subject set (when isSet)
	srel    int
}

type subject struct {
	isSet bool
	sid   int
	sobj  int
	srel  int
}

type world struct {
	opl     string // when set: the OPL document the configuration was parsed from (native replay uses it)
	shape   *cfgShape
	strict  bool
	nObj    int
	rows    []row
	maxDepth int
	maxWidth int
}

func symRows(k, nObj, nRel int) []row {
	rows := make([]row, k)
	for i := range rows {
		rows[i] = row{
			present: verifBool(),
			obj:     verifIntRange(0, nObj-1),
			rel:     verifIntRange(0, nRel-1),
			isSet:   verifBool(),
			sid:     verifIntRange(0, len(subjNames)-1),
			sobj:    verifIntRange(0, nObj-1),
			srel:    verifIntRange(0, nRel-1),
		}
	}
	return rows
}

func (w *world) subjectValue(s subject) relationtuple.Subject {
	if s.isSet {
		return &relationtuple.SubjectSet{Namespace: w.shape.nsOf(s.srel), Object: objID(s.sobj), Relation: w.shape.rels[s.srel]}
	}
	return &relationtuple.SubjectID{ID: subjID(s.sid)}
}

// apiTuple: the same relationship by names (subject ids only)
func (w *world) apiTuple(obj, rel int, s subject) *ketoapi.RelationTuple {
	t := &ketoapi.RelationTuple{Namespace: w.shape.nsOf(rel), Object: objNames[obj], Relation: w.shape.rels[rel]}
	if s.isSet {
		t.SubjectSet = &ketoapi.SubjectSet{Namespace: w.shape.nsOf(s.srel), Object: objNames[s.sobj], Relation: w.shape.rels[s.srel]}
	} else {
		t.SubjectID = &subjNames[s.sid]
	}
	return t
}

// v5Mapping maps names to ids the way the SQL mapping manager does in its
// read-only path (UUIDv5 under the nil network), without a table.
type v5Mapping struct{}

func (v5Mapping) MapStringsToUUIDs(ctx context.Context, s ...string) ([]uuid.UUID, error) {
	return v5Mapping{}.MapStringsToUUIDsReadOnly(ctx, s...)
}

func (v5Mapping) MapStringsToUUIDsReadOnly(ctx context.Context, s ...string) ([]uuid.UUID, error) {
	out := make([]uuid.UUID, len(s))
	for i := range s {
		out[i] = uuid.NewV5(uuid.Nil, s[i])
	}
	return out, nil
}

func (v5Mapping) MapUUIDsToStrings(ctx context.Context, u ...uuid.UUID) ([]string, error) {
	out := make([]string, len(u))
	for i := range u {
		for _, n := range append(append([]string{}, objNames...), subjNames...) {
			if uuid.NewV5(uuid.Nil, n) == u[i] {
				out[i] = n
			}
		}
	}
	return out, nil
}

func (w *world) tuple(obj, rel int, s subject) *relationtuple.RelationTuple {
	return &relationtuple.RelationTuple{Namespace: w.shape.nsOf(rel), Object: objID(obj), Relation: w.shape.rels[rel], Subject: w.subjectValue(s)}
}

// ---------------------------------------------------------------------------
// RefSem: the relationship-graph semantics as a formula over the rows
// (well-founded semantics computed by an alternating fixed point; `low` is
// what is certainly derivable, `up` what is possibly derivable).

type refsem struct {
	w      *world
	q      subject
	nObj   int
	nRel   int
	lhs    [][][]bool // [row][obj][rel]
	isQ    []bool     // row's subject equals the query subject
	ss     [][][]bool // [row][obj][rel]: row's subject is the set (obj, rel)
	ssObj  [][]bool   // [row][obj]
	low    [][]bool
	up     [][]bool
	selXlo []bool
	selXup []bool
	selTlo [][]bool
	selTup [][]bool
}

func newBools(n, m int, v bool) [][]bool {
	a := make([][]bool, n)
	for i := range a {
		a[i] = make([]bool, m)
		for j := range a[i] {
			a[i][j] = v
		}
	}
	return a
}

func newRefsem(w *world, q subject) *refsem {
	r := &refsem{w: w, q: q, nObj: w.nObj, nRel: len(w.shape.rels)}
	k := len(w.rows)
	r.lhs = make([][][]bool, k)
	r.ss = make([][][]bool, k)
	r.ssObj = make([][]bool, k)
	r.isQ = make([]bool, k)
	for i, rw := range w.rows {
		r.lhs[i] = newBools(r.nObj, r.nRel, false)
		r.ss[i] = newBools(r.nObj, r.nRel, false)
		r.ssObj[i] = make([]bool, r.nObj)
		for o := 0; o < r.nObj; o++ {
			eo := verifEq(rw.obj, o)
			so := verifAnd(rw.isSet, verifEq(rw.sobj, o))
			r.ssObj[i][o] = verifAnd(rw.present, so)
			for l := 0; l < r.nRel; l++ {
				r.lhs[i][o][l] = verifAnd(rw.present, verifAnd(eo, verifEq(rw.rel, l)))
				r.ss[i][o][l] = verifAnd(so, verifEq(rw.srel, l))
			}
		}
		if q.isSet {
			r.isQ[i] = verifAnd(rw.isSet, verifAnd(verifEq(rw.sobj, q.sobj), verifEq(rw.srel, q.srel)))
		} else {
			r.isQ[i] = verifAnd(verifNot(rw.isSet), verifEq(rw.sid, q.sid))
		}
	}
	return r
}

// step applies the semantics once: cur is the array being iterated (lower
// bound when lower==true), other the fixed opposite bound.
func (r *refsem) step(cur, other [][]bool, lower bool) [][]bool {
	k := len(r.w.rows)
	selX := make([]bool, k)
	selT := newBools(k, r.nRel, false)
	selTother := newBools(k, r.nRel, false)
	for i := 0; i < k; i++ {
		x := false
		for o := 0; o < r.nObj; o++ {
			for l := 0; l < r.nRel; l++ {
				x = verifOr(x, verifAnd(r.ss[i][o][l], cur[o][l]))
				selT[i][l] = verifOr(selT[i][l], verifAnd(r.ssObj[i][o], cur[o][l]))
				selTother[i][l] = verifOr(selTother[i][l], verifAnd(r.ssObj[i][o], other[o][l]))
			}
		}
		selX[i] = x
	}
	next := newBools(r.nObj, r.nRel, false)
	for o := 0; o < r.nObj; o++ {
		for l := 0; l < r.nRel; l++ {
			d, x := false, false
			for i := 0; i < k; i++ {
				d = verifOr(d, verifAnd(r.lhs[i][o][l], r.isQ[i]))
				x = verifOr(x, verifAnd(r.lhs[i][o][l], selX[i]))
			}
			rel := r.w.shape.relation(l)
			hasRw := rel != nil && rel.SubjectSetRewrite != nil
			v := false
			if hasRw {
				v = r.evalChild(rel.SubjectSetRewrite, o, cur, other, selT, selTother, true)
			}
			if !r.w.strict || !hasRw {
				v = verifOr(v, d)
			}
			canSets := !r.w.strict || rel == nil
			if rel != nil {
				for _, t := range rel.Types {
					if t.Relation != "" {
						canSets = true
					}
				}
			}
			if canSets {
				v = verifOr(v, x)
			}
			next[o][l] = v
		}
	}
	return next
}

// evalChild evaluates a rewrite node at object o. same==true means "the bound
// being iterated"; under a negation the opposite bound is used.
func (r *refsem) evalChild(c ast.Child, o int, cur, other [][]bool, selT, selTother [][]bool, same bool) bool {
	arr, sel := cur, selT
	if !same {
		arr, sel = other, selTother
	}
	switch n := c.(type) {
	case *ast.ComputedSubjectSet:
		return arr[o][r.w.shape.relIndex(n.Relation)]
	case *ast.TupleToSubjectSet:
		r1, r2 := r.w.shape.relIndex(n.Relation), r.w.shape.relIndex(n.ComputedSubjectSetRelation)
		v := false
		for i := range r.w.rows {
			v = verifOr(v, verifAnd(r.lhs[i][o][r1], sel[i][r2]))
		}
		return v
	case *ast.InvertResult:
		return verifNot(r.evalChild(n.Child, o, cur, other, selT, selTother, !same))
	case *ast.SubjectSetRewrite:
		if n.Operation == ast.OperatorAnd {
			v := true
			for _, k := range n.Children {
				v = verifAnd(v, r.evalChild(k, o, cur, other, selT, selTother, same))
			}
			return v
		}
		v := false
		for _, k := range n.Children {
			v = verifOr(v, r.evalChild(k, o, cur, other, selT, selTother, same))
		}
		return v
	}
	return false
}

// negCycle reports (as a formula over the rows) whether the evaluation of
// node (qo,qr) can reach a dependency cycle that passes through a negation.
// Such data has no agreed meaning (assumption A2) and is outside the claim.
func (r *refsem) negCycle(qo, qr int) bool {
	n := r.nObj * r.nRel
	id := func(o, l int) int { return o*r.nRel + l }
	edge := newBools(n, n, false)
	neg := newBools(n, n, false)
	var walk func(c ast.Child, o, from int, negated bool)
	walk = func(c ast.Child, o, from int, negated bool) {
		switch t := c.(type) {
		case *ast.ComputedSubjectSet:
			to := id(o, r.w.shape.relIndex(t.Relation))
			edge[from][to] = true
			if negated {
				neg[from][to] = true
			}
		case *ast.TupleToSubjectSet:
			r1, r2 := r.w.shape.relIndex(t.Relation), r.w.shape.relIndex(t.ComputedSubjectSetRelation)
			for o2 := 0; o2 < r.nObj; o2++ {
				e := false
				for i := range r.w.rows {
					e = verifOr(e, verifAnd(r.lhs[i][o][r1], r.ssObj[i][o2]))
				}
				to := id(o2, r2)
				edge[from][to] = verifOr(edge[from][to], e)
				if negated {
					neg[from][to] = verifOr(neg[from][to], e)
				}
			}
		case *ast.InvertResult:
			walk(t.Child, o, from, true)
		case *ast.SubjectSetRewrite:
			for _, k := range t.Children {
				walk(k, o, from, negated)
			}
		}
	}
	for o := 0; o < r.nObj; o++ {
		for l := 0; l < r.nRel; l++ {
			from := id(o, l)
			rel := r.w.shape.relation(l)
			if rel != nil && rel.SubjectSetRewrite != nil {
				walk(rel.SubjectSetRewrite, o, from, false)
			}
			canSets := !r.w.strict || rel == nil
			if rel != nil {
				for _, t := range rel.Types {
					if t.Relation != "" {
						canSets = true
					}
				}
			}
			if canSets {
				for o2 := 0; o2 < r.nObj; o2++ {
					for l2 := 0; l2 < r.nRel; l2++ {
						e := false
						for i := range r.w.rows {
							e = verifOr(e, verifAnd(r.lhs[i][o][l], r.ss[i][o2][l2]))
						}
						edge[from][id(o2, l2)] = verifOr(edge[from][id(o2, l2)], e)
					}
				}
			}
		}
	}
	// reflexive-transitive closure
	reach := newBools(n, n, false)
	for a := 0; a < n; a++ {
		for b := 0; b < n; b++ {
			reach[a][b] = edge[a][b]
		}
		reach[a][a] = true
	}
	for k := 0; k < n; k++ {
		for a := 0; a < n; a++ {
			for b := 0; b < n; b++ {
				reach[a][b] = verifOr(reach[a][b], verifAnd(reach[a][k], reach[k][b]))
			}
		}
	}
	q := id(qo, qr)
	bad := false
	for a := 0; a < n; a++ {
		for b := 0; b < n; b++ {
			bad = verifOr(bad, verifAnd(reach[q][a], verifAnd(neg[a][b], reach[b][a])))
		}
	}
	return bad
}

// solve computes low/up with `alts` alternations (1 suffices without negation).
func (r *refsem) solve(alts int) {
	rounds := r.nObj*r.nRel + 1
	r.up = newBools(r.nObj, r.nRel, true)
	for a := 0; a < alts; a++ {
		lo := newBools(r.nObj, r.nRel, false)
		for i := 0; i < rounds; i++ {
			lo = r.step(lo, r.up, true)
		}
		r.low = lo
		if !r.w.shape.hasNot {
			r.up = lo
			return
		}
		up := newBools(r.nObj, r.nRel, false)
		for i := 0; i < rounds; i++ {
			up = r.step(up, r.low, false)
		}
		r.up = up
	}
}

// ghost state observed by the harnesses (only maintained in symbolic runs)
var (
	verifLimitHit   bool
	verifWidthHit   bool // a subject-set expansion returned more results than max-width
	verifCalls      int  // storage calls issued
	verifFailAt     int  // storage call number that fails (0 = none)
	verifPersistent bool // every call >= verifFailAt fails
	verifFaultCancelled bool // the injected failure wraps context.Canceled
	verifCancelAt   int  // storage call during which the request context is cancelled (0 = none)
	verifCancel     context.CancelFunc
	verifFaults     int
	verifPageSize   = 100
	// width accounting: subject sets the engine went on to expand (calls of
	// CheckAndAddVisited) vs. what the traversal results allow under max-width
	verifVisitedCalls    int
	verifExpandAllowance int
	verifVisitedSkips int // subject sets skipped because already in the visited set
)

// ---------------------------------------------------------------------------
// engine access

type checkOutcome struct {
	allowed bool
	err     error
	unknown bool
}

func newEngine(deps check.EngineDependencies) *check.Engine { return check.NewEngine(deps) }

func runCheck(ctx context.Context, deps check.EngineDependencies, t *relationtuple.RelationTuple, depth int) checkgroup.Result {
	e := check.NewEngine(deps)
	return e.CheckRelationTuple(ctx, t, depth)
}
