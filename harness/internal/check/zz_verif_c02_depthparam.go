//go:build verif

package check

import (
	"net/url"
	"strconv"

	"github.com/ory/keto/internal/x"
)

// C02 (REST parameter): whatever number the max-depth query parameter denotes,
// the depth handed on means the same under every global limit:
// eff(parsed, G) == eff(v, G) for G = 1..5, with
// eff(r, G) = (r <= 0 || r > G) ? G : r.
//
// strconv.ParseInt is the environment here: it is replaced by a stub that
// returns an arbitrary 64-bit number v (the number the text denotes) and
// honours the requested bit size the way the real function does (out of range
// => the nearest bound and ErrRange). Chains of symbolic decimal digits through
// the real ParseInt (64-bit multiplications by 10) did not finish beyond 4
// digits in any solver, and the wrap-around cases need 10.

var verifParsedValue int64

func verifParseInt(s string, base int, bitSize int) (int64, error) {
	v := verifInt64()
	verifParsedValue = v
	if bitSize == 0 {
		bitSize = strconv.IntSize
	}
	if bitSize < 64 {
		lo, hi := -(int64(1) << uint(bitSize-1)), (int64(1)<<uint(bitSize-1))-1
		if verifConcretizeBool(verifLess(int(v), int(lo))) {
			return lo, strconv.ErrRange
		}
		if verifConcretizeBool(verifLess(int(hi), int(v))) {
			return hi, strconv.ErrRange
		}
	}
	return v, nil
}

func HarnessC02DepthParam() {
	d, err := x.GetMaxDepthFromQuery(url.Values{"max-depth": []string{"<the decimal text of v>"}})
	v := verifParsedValue
	verifReach("c02.depth-param")
	if err != nil {
		// rejecting is allowed only for numbers outside the range the handler asks ParseInt for
		verifCover("c02.depth-param-rejected")
		return
	}
	for G := 1; G <= 5; G++ {
		effV := verifIte(verifOr(verifNot(verifLess(0, int(v))), verifLess(G, int(v))), G, int(v))
		effD := verifIte(verifOr(verifNot(verifLess(0, d)), verifLess(G, d)), G, d)
		verifAssert(verifEq(effV, effD), "C02: the max-depth query parameter is handed on as a depth with a different meaning than the number sent")
	}
}
