//go:build verif

package driver

import (
	"context"

	prometheus "github.com/ory/x/prometheusx"
	"google.golang.org/grpc"
	"google.golang.org/grpc/health"
	grpcHealthV1 "google.golang.org/grpc/health/grpc_health_v1"
	"google.golang.org/grpc/reflection"

	opl "github.com/ory/keto/proto/ory/keto/opl/v1alpha1"
	rts "github.com/ory/keto/proto/ory/keto/relation_tuples/v1alpha2"
)

// C17 (wiring): which gRPC services each of the three API servers exposes. The
// real ReadGRPCServer / WriteGRPCServer / OplGRPCServer run over the real
// handler list; grpc.NewServer and the generated Register*ServiceServer
// functions are overridden by the recording stubs below.

var verifRegistered []string

func verifNewGrpcServer(r *RegistryDefault, ctx context.Context) *grpc.Server { return &grpc.Server{} }
func verifHealthServer(r *RegistryDefault) *health.Server                     { return nil }
func verifRegHealth(s grpc.ServiceRegistrar, srv grpcHealthV1.HealthServer)   {}
func verifRegReflection(s reflection.GRPCServer)                              {}
func verifPmmRegister(m *prometheus.MetricsManager, s *grpc.Server)           {}

func verifRegVersion(s grpc.ServiceRegistrar, srv rts.VersionServiceServer) {
	verifRegistered = append(verifRegistered, "VersionService")
}
func verifRegRead(s grpc.ServiceRegistrar, srv rts.ReadServiceServer) {
	verifRegistered = append(verifRegistered, "ReadService")
}
func verifRegWrite(s grpc.ServiceRegistrar, srv rts.WriteServiceServer) {
	verifRegistered = append(verifRegistered, "WriteService")
}
func verifRegCheck(s grpc.ServiceRegistrar, srv rts.CheckServiceServer) {
	verifRegistered = append(verifRegistered, "CheckService")
}
func verifRegExpand(s grpc.ServiceRegistrar, srv rts.ExpandServiceServer) {
	verifRegistered = append(verifRegistered, "ExpandService")
}
func verifRegNamespaces(s grpc.ServiceRegistrar, srv rts.NamespacesServiceServer) {
	verifRegistered = append(verifRegistered, "NamespacesService")
}
func verifRegSyntax(s grpc.ServiceRegistrar, srv opl.SyntaxServiceServer) {
	verifRegistered = append(verifRegistered, "SyntaxService")
}

func verifHas(name string) bool {
	for _, n := range verifRegistered {
		if n == name {
			return true
		}
	}
	return false
}

func HarnessC17Servers() {
	r := &RegistryDefault{}
	ctx := context.Background()
	verifRegistered = nil
	switch verifChoice(3) {
	case 0:
		verifTag("read-server")
		_ = r.ReadGRPCServer(ctx)
		verifReach("c17.servers.read")
		verifAssert(verifHas("ReadService") && verifHas("CheckService") && verifHas("ExpandService") && verifHas("NamespacesService"), "C17: the read API server does not expose all read services")
		verifAssert(!verifHas("WriteService"), "C17: the read API server exposes the write service (a request to the read port can modify stored state)")
		verifAssert(!verifHas("SyntaxService"), "C17: the read API server exposes the syntax service")
	case 1:
		verifTag("write-server")
		_ = r.WriteGRPCServer(ctx)
		verifReach("c17.servers.write")
		verifAssert(verifHas("WriteService"), "C17: the write API server does not expose the write service")
	default:
		verifTag("syntax-server")
		_ = r.OplGRPCServer(ctx)
		verifReach("c17.servers.syntax")
		verifAssert(verifHas("SyntaxService"), "C17: the syntax API server does not expose the syntax service")
		verifAssert(!verifHas("WriteService"), "C17: the syntax API server exposes the write service")
	}
}
