//go:build verif

package driver

// C17 (registry part): the mapper handed to read handlers is the read-only one.

func HarnessC17RegistryMappers() {
	r := &RegistryDefault{}
	ro := r.ReadOnlyMapper()
	rw := r.Mapper()
	verifReach("c17.registry")
	verifAssert(ro != nil && ro.ReadOnly, "C17: RegistryDefault.ReadOnlyMapper is not read-only")
	verifAssert(rw != nil && !rw.ReadOnly, "C17: RegistryDefault.Mapper is read-only (writes would never create mappings)")
	verifAssert(r.ReadOnlyMapper() == ro && r.Mapper() == rw && ro != rw, "C17: the registry does not keep the two mappers apart")
}
