//go:build verif

package driver

// C17 (registry part): the mapper handed to read handlers is the read-only one.

func HarnessC17RegistryMappers() {
	r := &RegistryDefault{}
	ro := r.ReadOnlyMapper()
	rw := r.Mapper()
	verifReach("c17.registry")
	verifAssert(ro != nil && ro.ReadOnly, "C17: RegistryDefault.ReadOnlyMapper is not read-only")
	verifAssert(rw != nil && !rw.ReadOnly, "C17: RegistryDefault.Mapper is read-only (writes would never create mappings)")
	verifAssert(r.ReadOnlyMapper() == ro && r.Mapper() == rw && ro != rw, "C17: the registry does not keep the two mappers apart")
}

// HarnessC14RegistryInit: the lazily initialised getters of RegistryDefault
// that request handlers call on every request, from two goroutines on a
// registry on which they have not been called before.
func HarnessC14RegistryInit() {
	r := &RegistryDefault{}
	done := make(chan struct{}, 2)
	which := verifChoice(4)
	call := func() {
		switch which {
		case 0:
			_ = r.ReadOnlyMapper()
		case 1:
			_ = r.Mapper()
		case 2:
			_ = r.PermissionEngine()
		default:
			_ = r.ExpandEngine()
		}
		done <- struct{}{}
	}
	verifTag([]string{"ReadOnlyMapper", "Mapper", "PermissionEngine", "ExpandEngine"}[which])
	go call()
	go call()
	<-done
	<-done
	verifReach("c14.registry")
}
