//go:build verif

package config

// C19: namespace configuration reloads are keep-last-good and never partial.
// The watcher structs are constructed directly and driven by a sequence of
// change / remove events (chosen by forking) with documents from a pool of
// four per file: valid v1, valid v2, syntactically invalid, type-incorrect.

import (
	"context"
	"io"
	"sort"
	"strings"

	"github.com/ory/x/logrusx"
	"github.com/ory/x/watcherx"

	"github.com/ory/keto/internal/namespace"
)

func verifChange(src, data string) *watcherx.ChangeEvent {
	e := &watcherx.ChangeEvent{}
	verifSetField(e, 0, []byte(data))
	verifSetField(e, 1, src)
	return e
}

func verifRemove(src string) *watcherx.RemoveEvent {
	e := &watcherx.RemoveEvent{}
	verifSetField(e, 0, src)
	return e
}

var verifFiles = []string{"a.ts", "b.ts"}

// verifDoc returns document k of file f and the namespace names it denotes
// (nil = the document is invalid).
func verifDoc(f, k int) (string, []string) {
	p := string(rune('A' + f))
	switch k {
	case 0:
		return "class " + p + "1 implements Namespace {}\n", []string{p + "1"}
	case 1:
		return "class " + p + "2 implements Namespace {}\nclass " + p + "2b implements Namespace { related: { x: " + p + "2[] } }\n", []string{p + "2", p + "2b"}
	case 2:
		return "class " + p + "3 implements {", nil
	}
	return "class " + p + "4 implements Namespace { related: { x: Ghost[] } }\n", nil
}

type verifFileState struct {
	invalidNow bool      // the latest content of the file does not parse / type-check
	lastValid []string   // names of the last valid version delivered (nil = none)
	valid     [][]string // all valid versions delivered so far
	removed   bool
	loaded    bool
}

func verifNames(nn []*namespace.Namespace) []string {
	var out []string
	for _, n := range nn {
		out = append(out, n.Name)
	}
	sort.Strings(out)
	return out
}

func verifOwned(names []string, f int) []string {
	p := string(rune('A' + f))
	var out []string
	for _, n := range names {
		if strings.HasPrefix(n, p) {
			out = append(out, n)
		}
	}
	return out
}

func verifSameSet(a, b []string) bool {
	if len(a) != len(b) {
		return false
	}
	x := append([]string{}, a...)
	y := append([]string{}, b...)
	sort.Strings(x)
	sort.Strings(y)
	for i := range x {
		if x[i] != y[i] {
			return false
		}
	}
	return true
}

func verifCheckVisible(visible []string, st []verifFileState, final bool, what string) {
	for f := range st {
		own := verifOwned(visible, f)
		s := st[f]
		// classification for the known-findings file, from the event history
		// only: is another file's latest content invalid (the all-or-nothing
		// reload then blocks this file too), is this file's own latest content
		// invalid, or are all files valid?
		tag := "all-files-valid"
		if s.invalidNow && !s.removed {
			tag = "own-latest-version-invalid"
		}
		for g := range st {
			if g != f && st[g].invalidNow && !st[g].removed {
				tag = "other-file-invalid"
			}
		}
		verifTag(tag)
		if s.removed || !s.loaded {
			// nothing of this file may be visible... unless never loaded: nothing either
			verifAssert(len(own) == 0 || !s.removed, "C19 "+what+": namespaces of a removed file are still visible")
			continue
		}
		oneOf := false
		for _, v := range s.valid {
			if verifSameSet(own, v) {
				oneOf = true
			}
		}
		if len(own) == 0 {
			verifAssert(false, "C19 "+what+": the namespaces of a file vanished although a valid version was loaded and the file was not removed")
			continue
		}
		verifAssert(oneOf, "C19 "+what+": the visible namespaces of a file are not those of one valid version loaded so far (partial or invalid version visible)")
		if final {
			verifAssert(verifSameSet(own, s.lastValid), "C19 "+what+": the last valid version of a file did not take effect")
		}
	}
}

// HarnessC19OPL: the OPL watcher.
func HarnessC19OPL() {
	nw := &oplConfigWatcher{
		logger:                 &logrusx.Logger{},
		target:                 "dir",
		files:                  configFiles{byPath: make(map[string][]byte)},
		memoryNamespaceManager: *NewMemoryNamespaceManager(),
	}
	if verifNative() {
		nw.logger = logrusx.New("verif", "0")
	}
	st := make([]verifFileState, len(verifFiles))
	h := verifParam("h")
	ctx := context.Background()
	trace := ""
	for step := 0; step < h; step++ {
		f := verifChoice(len(verifFiles))
		k := verifChoice(5)
		if k == 4 {
			nw.handleRemove(verifRemove(verifFiles[f]))
			st[f] = verifFileState{removed: true}
			trace += verifFiles[f] + ":remove "
		} else {
			doc, names := verifDoc(f, k)
			nw.handleChange(verifChange(verifFiles[f], doc))
			st[f].invalidNow = names == nil
			if names != nil {
				st[f].lastValid = names
				st[f].valid = append(st[f].valid, names)
				st[f].loaded = true
			}
			st[f].removed = false
			trace += verifFiles[f] + ":" + []string{"v1", "v2", "syntax-error", "type-error"}[k] + " "
		}
		nn, err := nw.Namespaces(ctx)
		if err != nil {
			verifFail("C19: Namespaces() fails")
			return
		}
		verifNote("events: " + trace)
		verifCheckVisible(verifNames(nn), st, step == h-1, "OPL watcher")
	}
	verifReach("c19.opl")
}

// ---- legacy JSON/YAML/TOML watcher ---------------------------------------------

// verifGetParser replaces GetParser: a document "ok:NAME" denotes the
// namespace NAME, anything else does not parse.
func verifGetParser(fn string) (Parser, error) {
	return func(b []byte, i interface{}) error {
		s := string(b)
		if strings.HasPrefix(s, "ok:") {
			i.(*namespace.Namespace).Name = s[3:]
			return nil
		}
		return io.ErrUnexpectedEOF
	}, nil
}

func HarnessC19Legacy() {
	nw := &NamespaceWatcher{logger: &logrusx.Logger{}, target: "dir", namespaces: make(map[string]*NamespaceFile)}
	if verifNative() {
		nw.logger = logrusx.New("verif", "0")
	}
	files := []string{"a.json", "b.json"}
	st := make([]verifFileState, len(files))
	h := verifParam("h")
	ctx := context.Background()
	trace := ""
	for step := 0; step < h; step++ {
		f := verifChoice(len(files))
		k := verifChoice(4)
		p := string(rune('A' + f))
		switch k {
		case 3:
			nw.handleRemove(verifRemove(files[f]))
			st[f] = verifFileState{removed: true}
			trace += files[f] + ":remove "
		case 2:
			nw.handleChange(verifChange(files[f], "{broken"))
			st[f].removed = false
			trace += files[f] + ":invalid "
		default:
			name := p + string(rune('1'+k))
			doc := "ok:" + name
			if verifNative() {
				doc = "{\"name\": \"" + name + "\"}"
			}
			nw.handleChange(verifChange(files[f], doc))
			st[f].lastValid = []string{name}
			st[f].valid = append(st[f].valid, []string{name})
			st[f].loaded, st[f].removed = true, false
			trace += files[f] + ":" + name + " "
		}
		nn, err := nw.Namespaces(ctx)
		if err != nil {
			verifFail("C19: Namespaces() fails")
			return
		}
		verifNote("events: " + trace)
		verifCheckVisible(verifNames(nn), st, step == h-1, "legacy watcher")
		// lookup by name agrees with the listing
		for _, n := range nn {
			got, err := nw.GetNamespaceByName(ctx, n.Name)
			verifAssert(err == nil && got != nil && got.Name == n.Name, "C19 legacy watcher: a listed namespace cannot be looked up by name")
		}
	}
	verifReach("c19.legacy")
}

// ---- Config level: a configuration reload that leaves the namespaces setting unchanged ----------

var (
	verifLegacyWatchers []*NamespaceWatcher
	verifNsTarget       string
)

// verifNewNamespaceWatcher replaces NewNamespaceWatcher (which starts file
// watching): a fresh, empty watcher struct for the target, remembered so that
// the harness can deliver events to it.
func verifNewNamespaceWatcher(ctx context.Context, l *logrusx.Logger, target string) (*NamespaceWatcher, error) {
	nw := &NamespaceWatcher{logger: &logrusx.Logger{}, target: target, namespaces: make(map[string]*NamespaceFile)}
	verifLegacyWatchers = append(verifLegacyWatchers, nw)
	return nw, nil
}

// verifLegacyNamespaceConfig replaces (*Config).namespaceConfig: the legacy
// "namespaces: <uri>" setting with the current target.
func verifLegacyNamespaceConfig(k *Config) (namespaceConfig, error) {
	return legacyURINamespaceConfig(verifNsTarget), nil
}

// HarnessC19ConfigReload: a namespace file was loaded and then became invalid
// (the last valid version is served); the main configuration is hot-reloaded.
// With the namespaces setting unchanged the manager, and with it the last valid
// version, must survive; with a changed setting a new manager is built.
func HarnessC19ConfigReload() {
	verifLegacyWatchers = nil
	verifNsTarget = "file://dir"
	k := &Config{ctx: context.Background(), l: &logrusx.Logger{}}
	ctx := context.Background()
	if _, err := k.NamespaceManager(); err != nil || len(verifLegacyWatchers) != 1 {
		verifFail("C19 config: the namespace manager for a legacy URI is not a namespace watcher")
		return
	}
	nw := verifLegacyWatchers[0]
	nw.handleChange(verifChange("a.json", "ok:A1"))
	if verifChoice(2) == 1 {
		nw.handleChange(verifChange("a.json", "{broken"))
		verifTag("file-invalid-at-reload")
	} else {
		verifTag("file-valid-at-reload")
	}
	changed := verifChoice(2) == 1
	if changed {
		verifNsTarget = "file://elsewhere"
	}
	k.watcher(nil, nil)
	nm, err := k.NamespaceManager()
	if err != nil {
		verifFail("C19 config: no namespace manager after a configuration reload")
		return
	}
	nn, err := nm.Namespaces(ctx)
	verifReach("c19.config")
	if changed {
		verifAssert(len(verifLegacyWatchers) == 2, "C19 config: a changed namespaces setting does not lead to a new namespace manager")
		return
	}
	verifAssert(err == nil && len(nn) == 1 && nn[0].Name == "A1", "C19 config: a reload that leaves the namespaces setting unchanged drops the last valid namespaces")
	verifAssert(len(verifLegacyWatchers) == 1, "C19 config: a reload that leaves the namespaces setting unchanged rebuilds the namespace manager")
}
