//go:build verif

package config

import (
	"context"

	"github.com/ory/x/logrusx"

	"github.com/ory/keto/internal/namespace"
)

// C14 (configuration): the namespace manager of a Config is created on first
// use and dropped on a namespace reload; request goroutines call
// NamespaceManager() for every node of a check tree. Two readers and one
// reload on a fresh Config, every delay-bounded schedule, happens-before race
// analysis. namespaceConfig() is overridden (a literal namespace list), so no
// configuration provider is needed.

func verifNamespaceConfig(k *Config) (namespaceConfig, error) {
	return literalNamespaceConfig([]*namespace.Namespace{{Name: "N"}}), nil
}

func HarnessC14ConfigNamespaceManager() {
	k := &Config{ctx: context.Background(), l: &logrusx.Logger{}}
	done := make(chan struct{}, 3)
	withReload := verifChoice(2) == 1
	read := func() {
		nm, err := k.NamespaceManager()
		if err == nil && nm != nil {
			_, _ = nm.GetNamespaceByName(context.Background(), "N")
		}
		done <- struct{}{}
	}
	n := 2
	if withReload {
		// a first request has created the manager; a reload races with two requests
		verifTag("reload-while-requests-run")
		_, _ = k.NamespaceManager()
		go func() { k.resetNamespaceManager(); done <- struct{}{} }()
		n = 3
	} else {
		verifTag("two-first-requests")
	}
	go read()
	go read()
	for i := 0; i < n; i++ {
		<-done
	}
	verifReach("c14.config")
}
