//go:build verif

package schema

import (
	"context"
	"io"
	"net/http"

	"github.com/ory/herodot"
	"github.com/ory/x/logrusx"

	"github.com/ory/keto/ketoapi"
	opl "github.com/ory/keto/proto/ory/keto/opl/v1alpha1"
)

// C12 (endpoints): the REST and the gRPC syntax-check endpoints return the same
// diagnosis for the same document: same number of errors, same messages, same
// positions, and the positions refer to the document as submitted.

type verifSyntaxWriter struct {
	code    int
	payload interface{}
	err     error
}

func (w *verifSyntaxWriter) Write(_ http.ResponseWriter, _ *http.Request, e interface{}, _ ...herodot.EncoderOptions) {
	w.code, w.payload = 200, e
}
func (w *verifSyntaxWriter) WriteCode(_ http.ResponseWriter, _ *http.Request, code int, e interface{}, _ ...herodot.EncoderOptions) {
	w.code, w.payload = code, e
}
func (w *verifSyntaxWriter) WriteCreated(_ http.ResponseWriter, _ *http.Request, _ string, e interface{}) {
	w.code, w.payload = 201, e
}
func (w *verifSyntaxWriter) WriteError(_ http.ResponseWriter, _ *http.Request, err error, _ ...herodot.Option) {
	w.code, w.err = 500, err
}
func (w *verifSyntaxWriter) WriteErrorCode(_ http.ResponseWriter, _ *http.Request, code int, err error, _ ...herodot.Option) {
	w.code, w.err = code, err
}

type verifSyntaxDeps struct {
	wr  *verifSyntaxWriter
	log *logrusx.Logger
}

func (d *verifSyntaxDeps) Writer() herodot.Writer  { return d.wr }
func (d *verifSyntaxDeps) Logger() *logrusx.Logger { return d.log }

// verifSyntaxBody is what io.ReadAll returns for the request body (io.ReadAll
// is overridden by verifReadAll in this run).
var verifSyntaxBody []byte

func verifReadAll(r io.Reader) ([]byte, error) {
	return append([]byte(nil), verifSyntaxBody...), nil
}

func HarnessC12Endpoints() {
	s := verifC12Input()
	verifSyntaxBody = []byte(s)
	verifBodyPos = 0
	d := &verifSyntaxDeps{wr: &verifSyntaxWriter{}, log: &logrusx.Logger{}}
	if verifNative() {
		d.log = logrusx.New("verif", "0")
	}
	h := NewHandler(d)
	h.postCheckOplSyntax(nil, &http.Request{Body: verifBodyReader{}}, nil)
	g, gerr := h.Check(context.Background(), &opl.CheckRequest{Content: []byte(s)})
	verifReach("c12.endpoints")
	if gerr != nil || d.wr.err != nil || d.wr.code != 200 {
		verifFail("C12 endpoints: a syntax check request is answered with an error instead of a diagnosis")
		return
	}
	rest, ok := d.wr.payload.(*ketoapi.CheckOPLSyntaxResponse)
	if !ok {
		verifFail("C12 endpoints: the REST endpoint does not answer with a syntax check result")
		return
	}
	// the reference: the parser on the document as submitted
	_, want := Parse(s)
	verifAssert(len(rest.Errors) == len(want) && len(g.ParseErrors) == len(want), "C12 endpoints: the endpoints report a different number of errors than the parser on the submitted document")
	if len(rest.Errors) != len(want) || len(g.ParseErrors) != len(want) {
		return
	}
	for i := range want {
		a, r, p := want[i].ToAPI(), rest.Errors[i], g.ParseErrors[i]
		// (messages with symbolic content are opaque strings, fresh per parser run: they are compared natively only)
		if verifNative() {
			verifAssert(r.Message == a.Message && p.Message == a.Message, "C12 endpoints: REST and gRPC report different messages")
		}
		verifAssert(verifAnd(verifAnd(verifEq(int(r.Start.Line), int(a.Start.Line)), verifEq(int(r.Start.Col), int(a.Start.Col))), verifAnd(verifEq(int(r.End.Line), int(a.End.Line)), verifEq(int(r.End.Col), int(a.End.Col)))),
			"C12 endpoints: the REST endpoint reports positions that are not those of the submitted document")
		verifAssert(verifAnd(verifAnd(verifEq(int(p.Start.Line), int(a.Start.Line)), verifEq(int(p.Start.Column), int(a.Start.Col))), verifAnd(verifEq(int(p.End.Line), int(a.End.Line)), verifEq(int(p.End.Column), int(a.End.Col)))),
			"C12 endpoints: the gRPC endpoint reports positions that are not those of the submitted document")
	}
}

// verifBodyReader: natively the request body really delivers verifSyntaxBody.
type verifBodyReader struct{}

func (verifBodyReader) Close() error { return nil }

func (verifBodyReader) Read(p []byte) (int, error) {
	if verifBodyPos >= len(verifSyntaxBody) {
		return 0, io.EOF
	}
	n := copy(p, verifSyntaxBody[verifBodyPos:])
	verifBodyPos += n
	return n, nil
}

var verifBodyPos int
