//go:build verif

package schema

import (
	"strconv"
	"strings"
	"unicode/utf8"
)

// C12: the OPL parser is total.

// verifC12Alphabet restricts a symbolic byte to the alphabet selected by the
// "alphabet" parameter: 0 = all 256 values; 1 = printable ASCII + \t \n +
// the bytes 0xC3 0xA9 0xE2 0x82 0xAC 0x80 0xFF (valid 2- and 3-byte
// sequences, stray continuation bytes and invalid bytes can all be formed).
func verifC12Byte(b byte) {
	if verifParam("alphabet") == 0 {
		return
	}
	ok := verifOr(verifAnd(b >= 0x20, b < 0x7f), verifOr(b == '\t', b == '\n'))
	for _, c := range []byte{0xC3, 0xA9, 0xE2, 0x82, 0xAC, 0x80, 0xFF} {
		ok = verifOr(ok, b == c)
	}
	verifAssume(ok)
}

func verifC12Input() string {
	n := verifChoice(verifParam("n") + 1)
	s := verifString(n)
	for i := 0; i < len(s); i++ {
		verifC12Byte(s[i])
	}
	return s
}

// HarnessC12Lexer: N symbolic bytes through the real lexer: no panic, at most
// N+2 items, item positions inside the input with Start <= End, and a step
// count linear in N.
func HarnessC12Lexer() {
	s := verifC12Input()
	n := len(s)
	l := Lex("verif", s)
	steps0 := verifSteps()
	for k := 0; k < n+2; k++ {
		it := l.nextItem()
		verifAssert(verifAnd(it.Start >= 0, verifAnd(it.Start <= it.End, it.End <= n)), "C12 lexer: item position outside the input or start after end")
		if verifConcretizeBool(it.Typ == itemEOF) {
			verifReach("c12.lexer.eof")
			verifAssert(verifSteps()-steps0 <= 4000*(n+1), "C12 lexer: more than 4000*(n+1) interpreter steps")
			return
		}
		if verifConcretizeBool(it.Typ == itemError) {
			verifReach("c12.lexer.error")
			verifAssert(verifSteps()-steps0 <= 4000*(n+1), "C12 lexer: more than 4000*(n+1) interpreter steps")
			return
		}
	}
	verifFail("C12 lexer: more than n+2 items from n bytes")
}

func verifC12CheckErrors(s string, errs []*ParseError) {
	lines := 1
	for i := 0; i < len(s); i++ {
		if verifConcretizeBool(s[i] == '\n') {
			lines++
		}
	}
	for _, e := range errs {
		_ = e.Error()
		api := e.ToAPI()
		pr := e.ToProto()
		verifAssert(verifAnd(api.Start.Line >= 1, verifAnd(api.Start.Line <= api.End.Line, api.End.Line <= lines+1)),
			"C12 errors: line numbers not within 1 <= start <= end <= lines+1")
		verifAssert(verifAnd(int(pr.Start.Line) == api.Start.Line, verifAnd(int(pr.Start.Column) == api.Start.Col,
			verifAnd(int(pr.End.Line) == api.End.Line, int(pr.End.Column) == api.End.Col))),
			"C12 errors: REST and gRPC positions differ")
		verifAssert(verifStrEq(pr.Message, api.Message), "C12 errors: REST and gRPC messages differ")
	}
}

// HarnessC12ParseBytes: N symbolic bytes through the real Parse: no panic,
// bounded steps, every error renders and carries sane positions.
func HarnessC12ParseBytes() {
	s := verifC12Input()
	steps0 := verifSteps()
	ns, errs := Parse(s)
	verifAssert(verifSteps()-steps0 <= 6000*(len(s)+1), "C12 parse: more than 6000*(n+1) interpreter steps")
	if len(errs) == 0 {
		verifReach("c12.parse.accepted")
		_ = ns
		return
	}
	verifReach("c12.parse.rejected")
	verifC12CheckErrors(s, errs)
}

// HarnessC12ErrorRendering: arbitrary item positions 0 <= Start <= End <= len
// over an input with newlines, multi-byte and invalid UTF-8.
func HarnessC12ErrorRendering() {
	n := verifChoice(verifParam("n") + 1)
	s := verifString(n)
	for i := 0; i < len(s); i++ {
		b := s[i]
		ok := verifOr(b == '\n', verifOr(b == ' ', verifOr(b == 'a', b == '\t')))
		ok = verifOr(ok, verifOr(b == 0xC3, verifOr(b == 0xA9, b == 0xFF)))
		verifAssume(ok)
	}
	start := verifIntRange(0, n)
	end := verifIntRange(0, n)
	verifAssume(start <= end)
	p := &parser{lexer: Lex("verif", s)}
	e := &ParseError{msg: "m", item: item{Typ: itemError, Val: "v", Start: start, End: end}, p: p}
	verifReach("c12.render")
	verifC12CheckErrors(s, []*ParseError{e})
}

// ---------------------------------------------------------------------------
// tokens -> parser: any token sequence terminates without panic

type verifC12Tok struct {
	typ itemType
	val string
}

var verifC12Alphabet = []verifC12Tok{
	{itemIdentifier, "related"}, {itemIdentifier, "permits"}, {itemIdentifier, "Namespace"}, {itemIdentifier, "Array"},
	{itemIdentifier, "SubjectSet"}, {itemIdentifier, "includes"}, {itemIdentifier, "traverse"}, {itemIdentifier, "subject"},
	{itemIdentifier, "x"}, {itemStringLiteral, "x"},
	{itemKeywordClass, "class"}, {itemKeywordThis, "this"}, {itemKeywordCtx, "ctx"},
	{itemOperatorAnd, "&&"}, {itemOperatorOr, "||"}, {itemOperatorNot, "!"}, {itemOperatorAssign, "="}, {itemOperatorArrow, "=>"},
	{itemOperatorDot, "."}, {itemOperatorColon, ":"}, {itemOperatorComma, ","}, {itemSemicolon, ";"}, {itemTypeUnion, "|"},
	{itemParenLeft, "("}, {itemParenRight, ")"}, {itemBraceLeft, "{"}, {itemBraceRight, "}"}, {itemBracketLeft, "["},
	{itemBracketRight, "]"}, {itemAngledLeft, "<"}, {itemAngledRight, ">"},
	{itemEOF, ""}, {itemError, "boom"},
}

var verifC12State struct {
	pre  []item
	pos  int
	n    int
	L    int
	seq  []int
	done bool
}

// verifNextToken12 replaces (*lexer).nextNonCommentItem for HarnessC12ParserTokens.
func verifNextToken12(l *lexer) item {
	t := &verifC12State
	if t.pos < len(t.pre) {
		it := t.pre[t.pos]
		t.pos++
		return it
	}
	if t.done || t.n >= t.L {
		t.done = true
		return item{Typ: itemEOF}
	}
	k := verifChoice(len(verifC12Alphabet))
	t.n++
	t.seq = append(t.seq, k)
	a := verifC12Alphabet[k]
	if a.typ == itemEOF || a.typ == itemError {
		t.done = true
	}
	return item{Typ: a.typ, Val: a.val, Start: 0, End: 0}
}

func HarnessC12ParserTokens() {
	verifC12State.pre = nil
	verifC12State.pos, verifC12State.n, verifC12State.seq, verifC12State.done = 0, 0, nil, false
	verifC12State.L = verifParam("L")
	verifTok = verifTokState{}
	switch verifChoice(3) {
	case 0:
		// directly inside a class body
		verifC12State.pre = []item{{Typ: itemKeywordClass, Val: "class"}, {Typ: itemIdentifier, Val: "N"}, {Typ: itemKeywordImplements, Val: "implements"}, {Typ: itemIdentifier, Val: "Namespace"}, {Typ: itemBraceLeft, Val: "{"}}
	case 1:
		// inside related: {
		verifC12State.pre = []item{{Typ: itemKeywordClass, Val: "class"}, {Typ: itemIdentifier, Val: "N"}, {Typ: itemKeywordImplements, Val: "implements"}, {Typ: itemIdentifier, Val: "Namespace"}, {Typ: itemBraceLeft, Val: "{"},
			{Typ: itemIdentifier, Val: "related"}, {Typ: itemOperatorColon, Val: ":"}, {Typ: itemBraceLeft, Val: "{"}}
	default:
		// at the start of a permission body
		verifC12State.pre = verifClassPrefix()
	}
	steps0 := verifSteps()
	ns, errs := Parse("")
	verifReach("c12.tokens.done")
	verifAssert(verifSteps()-steps0 <= 40000+20000*verifC12State.L, "C12 parser: step count not linear in the number of tokens")
	if len(errs) == 0 {
		verifCover("c12.tokens.accepted")
		_ = ns
	}
}

// ---------------------------------------------------------------------------
// pumped inputs: one lexeme repeated many times (pathological nesting, runs of
// punctuation longer than the lexer's item buffer, unterminated openers), with
// and without a class prefix; concrete text through the real lexer and parser.

var verifC12Lexemes = []string{
	"(", ")", "[", "]", "{", "}", "<", ">", "=", ",", ";", "|", "!", ":", ".", "=>", "||", "&&", "/", "*", "\"", "'",
	"a", "class", "this", "ctx", "related", "\"s\"", "'s'", "//c\n", "/*c*/", "/*", "\xff", "é", "0", "\\",
	"!(", "a.", "a:", "a,", "a:a[]", "(a)=>", "this.related.a.includes(ctx.subject)||", "!this.related.a.includes(ctx.subject)&&",
}

func HarnessC12Pump() {
	lex := verifC12Lexemes[verifChoice(len(verifC12Lexemes))]
	k := []int{19, 20, 21, 22, 41, 64}[verifChoice(6)]
	sep := []string{"", " ", "\n"}[verifChoice(3)]
	pre := []string{"", "class A implements Namespace {", "class A implements Namespace { related: { a: A[] } permits = { p: (ctx) => "}[verifChoice(3)]
	post := []string{"", "}", "this.related.a.includes(ctx.subject)" + strings.Repeat(")", k) + " } }"}[verifChoice(3)]
	s := pre
	for i := 0; i < k; i++ {
		s += lex + sep
	}
	s += post
	verifNote("input: " + pre + " [" + lex + sep + "] x " + strconv.Itoa(k) + " " + post)
	steps0 := verifSteps()
	_, errs := Parse(s)
	verifReach("c12.pump.returned")
	verifAssert(verifSteps()-steps0 <= 6000*(len(s)+1), "C12 parse: more than 6000*(n+1) interpreter steps")
	if len(errs) > 0 {
		verifC12CheckErrors(s, errs)
	}
}

// ---------------------------------------------------------------------------
// a string literal that is not valid UTF-8 at every token position of a full
// document: the diagnosis must be transportable (the gRPC response is a
// protobuf string, which has to be valid UTF-8).

var verifC12Template = []string{
	"class", "User", "implements", "Namespace", "{", "}",
	"class", "Doc", "implements", "Namespace", "{",
	"related", ":", "{", "parents", ":", "Doc", "[", "]", ",", "viewers", ":", "(", "User", "|", "SubjectSet", "<", "Doc", ",", "\"viewers\"", ">", ")", "[", "]", "}",
	"permits", "=", "{",
	"view", ":", "(", "ctx", ":", "Context", ")", ":", "boolean", "=>",
	"this", ".", "related", ".", "viewers", ".", "includes", "(", "ctx", ".", "subject", ")", "||",
	"this", ".", "related", ".", "parents", ".", "traverse", "(", "(", "p", ")", "=>", "p", ".", "permits", ".", "view", "(", "ctx", ")", ")", "&&",
	"!", "this", ".", "permits", ".", "view", "(", "ctx", ")", ",",
	"}", "}",
}

func HarnessC12BadLiteralEverywhere() {
	pos := verifChoice(len(verifC12Template))
	bad := []string{"\"caf\xe9\"", "'\xff'", "\"\xc3\"", "caf\xe9"}[verifChoice(4)]
	s := ""
	for i, t := range verifC12Template {
		if i == pos {
			t = bad
		}
		s += t + " "
	}
	verifNote("token " + strconv.Itoa(pos) + " (" + verifC12Template[pos] + ") replaced")
	_, errs := Parse(s)
	verifReach("c12.bad-literal")
	// (the document may still be valid: a quoted name is allowed wherever a name is)
	for _, e := range errs {
		m := e.ToProto().Message
		verifAssert(utf8.ValidString(m), "C12: a parse error message is not valid UTF-8 (it cannot be returned by the gRPC endpoint)")
		verifAssert(utf8.ValidString(e.ToAPI().Message), "C12: a parse error message is not valid UTF-8")
	}
	verifC12CheckErrors(s, errs)
}
