//go:build verif

package schema

import "github.com/ory/keto/internal/namespace/ast"

// HarnessC10Spellings: every syntactic variant the language allows, rendered
// to concrete text and run through the real lexer and parser; the result must
// be the namespaces the choices denote. (Variant space explored by forking;
// each path has a concrete text, so the solver is idle here.)

// Sites are varied one at a time (quick) or as full products within two
// groups of sites (thorough); all other sites keep their first spelling.
var verifSpell struct {
	full  bool
	group int // thorough: 0 = declaration sites, 1 = permission sites
	site  int // quick: the one site that varies
	n     int
}

const verifSpellSites = 9

func verifPickAt(site int, opts ...string) int {
	vary := false
	if verifSpell.full {
		vary = (site <= 3) == (verifSpell.group == 0)
	} else {
		vary = site == verifSpell.site
	}
	if !vary {
		return 0
	}
	return verifChoice(len(opts))
}

func verifPick(site int, opts ...string) string { return opts[verifPickAt(site, opts...)] }

func verifSpellingDoc(full bool) (string, []ast.RelationType, ast.Child, string) {
	// --- type of Doc.viewers
	var types []ast.RelationType
	var typ string
	switch verifPickAt(0, "", "", "", "", "", "", "", "") {
	case 0:
		typ, types = "User[]", []ast.RelationType{{Namespace: "User"}}
	case 1:
		typ, types = "Array<User>", []ast.RelationType{{Namespace: "User"}}
	case 2:
		typ, types = "(User | Group)[]", []ast.RelationType{{Namespace: "User"}, {Namespace: "Group"}}
	case 3:
		typ, types = "SubjectSet<Group, \"members\">[]", []ast.RelationType{{Namespace: "Group", Relation: "members"}}
	case 4:
		typ, types = "(User | SubjectSet<Group, 'members'>)[]", []ast.RelationType{{Namespace: "User"}, {Namespace: "Group", Relation: "members"}}
	case 5:
		typ, types = "Array<User | SubjectSet<Group, \"members\">>", []ast.RelationType{{Namespace: "User"}, {Namespace: "Group", Relation: "members"}}
	case 6:
		// one namespace in two forms: as subject ids and as a subject set
		typ, types = "(Group | SubjectSet<Group, \"members\">)[]", []ast.RelationType{{Namespace: "Group"}, {Namespace: "Group", Relation: "members"}}
	default:
		typ, types = "Array<SubjectSet<Group, \"members\"> | Group | User>", []ast.RelationType{{Namespace: "Group", Relation: "members"}, {Namespace: "Group"}, {Namespace: "User"}}
	}
	name := verifPick(1, "viewers", "'viewers'", "\"viewers\"")
	// separators between and after relation declarations
	sep := verifPick(2, ",", ";", "\n", "")
	trail := verifPick(3, "", ",", ";")
	cm := verifPick(4, "", " /* c */ ", " // c\n")
	// --- permission signature
	ann := verifPick(5, "", ": Context")
	ret := verifPick(6, "", ": boolean")
	accKind := verifPickAt(7, "", "", "")
	acc := func(prop string) string {
		return []string{"." + prop, "[\"" + prop + "\"]", "['" + prop + "']"}[accKind]
	}
	psep := ","
	// inside the object literal only a trailing comma is TypeScript
	ptrail := ""
	if trail == "," {
		ptrail = ","
	}
	// --- second permission body
	var body string
	var child ast.Child
	switch verifPickAt(8, "", "", "", "") {
	case 0:
		body = "this.permits" + acc("view") + "(ctx)"
		child = &ast.ComputedSubjectSet{Relation: "view"}
	case 1:
		body = "this.related" + acc("parents") + ".traverse((p) => p.permits" + acc("view") + "(ctx))"
		child = &ast.TupleToSubjectSet{Relation: "parents", ComputedSubjectSetRelation: "view"}
	case 2:
		body = "this.related" + acc("parents") + ".traverse(p => p.related" + acc("viewers") + ".includes(ctx.subject))"
		child = &ast.TupleToSubjectSet{Relation: "parents", ComputedSubjectSetRelation: "viewers"}
	default:
		body = "this.related" + acc("parents") + ".traverse((p) => p.related" + acc("viewers") + ".includes(ctx.subject,),)"
		child = &ast.TupleToSubjectSet{Relation: "parents", ComputedSubjectSetRelation: "viewers"}
	}
	doc := "class User implements Namespace {}\n" +
		"class Group implements Namespace {" + cm + " related: { members: User[] } }\n" +
		"class Doc implements Namespace {\n  related: {\n" +
		"    " + name + cm + ": " + typ + sep + cm + "\n" +
		"    parents: Doc[]" + trail + "\n  }\n" +
		"  permits = {\n" +
		"    view: (ctx" + ann + ")" + ret + " =>" + cm + " this.related" + acc("viewers") + ".includes(ctx.subject)" + psep + "\n" +
		"    edit: (ctx) => " + body + ptrail + "\n  }\n}\n"
	return doc, types, child, typ + "|sep=" + sep + "|trail=" + trail
}

func verifTypesEq(a, b []ast.RelationType) bool {
	if len(a) != len(b) {
		return false
	}
	for i := range a {
		if a[i] != b[i] {
			return false
		}
	}
	return true
}

func verifChildEq(a, b ast.Child) bool {
	switch x := a.(type) {
	case *ast.ComputedSubjectSet:
		y, ok := b.(*ast.ComputedSubjectSet)
		return ok && *x == *y
	case *ast.TupleToSubjectSet:
		y, ok := b.(*ast.TupleToSubjectSet)
		return ok && *x == *y
	}
	return false
}

func HarnessC10Spellings() {
	full := verifParam("full") == 1
	verifSpell.full = full
	if full {
		verifSpell.group = verifChoice(2)
	} else {
		verifSpell.site = verifChoice(verifSpellSites)
	}
	doc, types, child, cls := verifSpellingDoc(full)
	verifNote(doc)
	ns, errs := Parse(doc)
	// class for the known-findings file: which spelling is involved
	tag := "plain"
	if len(cls) >= 6 && cls[:6] == "Array<" {
		tag = "array-generic-type"
		for i := 0; i+5 <= len(cls); i++ {
			if cls[i:i+5] == "sep=," {
				tag = "array-generic-type-followed-by-comma"
			}
		}
	}
	verifTag(tag)
	verifReach("c10.spelling.parsed")
	verifAssert(len(errs) == 0, "C10 spellings: a document in an allowed spelling is rejected")
	if len(errs) != 0 {
		return
	}
	ok := len(ns) == 3 && ns[0].Name == "User" && len(ns[0].Relations) == 0 &&
		ns[1].Name == "Group" && len(ns[1].Relations) == 1 && ns[1].Relations[0].Name == "members" &&
		verifTypesEq(ns[1].Relations[0].Types, []ast.RelationType{{Namespace: "User"}}) &&
		ns[2].Name == "Doc" && len(ns[2].Relations) == 4
	verifAssert(ok, "C10 spellings: namespaces/relations differ from what the text denotes")
	if !ok {
		return
	}
	r := ns[2].Relations
	verifAssert(r[0].Name == "viewers" && verifTypesEq(r[0].Types, types) && r[0].SubjectSetRewrite == nil, "C10 spellings: relation 'viewers' has the wrong name or types")
	verifAssert(r[1].Name == "parents" && verifTypesEq(r[1].Types, []ast.RelationType{{Namespace: "Doc"}}), "C10 spellings: relation 'parents' has the wrong types")
	verifAssert(r[2].Name == "view" && r[2].SubjectSetRewrite != nil && len(r[2].SubjectSetRewrite.Children) == 1 &&
		verifChildEq(r[2].SubjectSetRewrite.Children[0], &ast.ComputedSubjectSet{Relation: "viewers"}), "C10 spellings: permission 'view' has the wrong rewrite")
	verifAssert(r[3].Name == "edit" && r[3].SubjectSetRewrite != nil && len(r[3].SubjectSetRewrite.Children) == 1 &&
		verifChildEq(r[3].SubjectSetRewrite.Children[0], child), "C10 spellings: permission 'edit' has the wrong rewrite")
}
