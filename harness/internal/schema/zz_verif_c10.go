//go:build verif

package schema

import "github.com/ory/keto/internal/namespace/ast"

// C10: OPL permission expressions mean what the same TypeScript means.
//
// Token-level harness: (*lexer).nextNonCommentItem is overridden by
// verifNextToken, which serves a fixed class prefix and then up to L
// expression tokens from the alphabet {A, B, C, &&, ||, !, (, )} followed by
// the closing braces. Each expression token is chosen lazily (one fork per
// token actually requested by the parser, so only viable prefixes survive).

const (
	vtA = iota
	vtB
	vtC
	vtAnd
	vtOr
	vtNot
	vtLP
	vtRP
	vtEnd
)

var verifTokNames = []string{"A", "B", "C", "&&", "||", "!", "(", ")", "<end>"}

type verifTokState struct {
	pre   []item
	pos   int
	expr  []int
	queue []item
	done  bool
	L     int
	off   int
	// when replaying a fixed expression
	fixed    []int
	useFixed bool
	// choose only among tokens that keep the prefix viable in the reference grammar
	viableOnly bool
}

var verifTok verifTokState

func verifMk(typ itemType, val string) item {
	it := item{Typ: typ, Val: val, Start: verifTok.off, End: verifTok.off + len(val)}
	verifTok.off += len(val) + 1
	return it
}

func verifClassPrefix() []item {
	var p []item
	add := func(typ itemType, val string) { p = append(p, verifMk(typ, val)) }
	add(itemKeywordClass, "class")
	add(itemIdentifier, "N")
	add(itemKeywordImplements, "implements")
	add(itemIdentifier, "Namespace")
	add(itemBraceLeft, "{")
	add(itemIdentifier, "related")
	add(itemOperatorColon, ":")
	add(itemBraceLeft, "{")
	for _, r := range []string{"a", "b", "c"} {
		add(itemIdentifier, r)
		add(itemOperatorColon, ":")
		add(itemIdentifier, "N")
		add(itemBracketLeft, "[")
		add(itemBracketRight, "]")
	}
	add(itemBraceRight, "}")
	add(itemIdentifier, "permits")
	add(itemOperatorAssign, "=")
	add(itemBraceLeft, "{")
	add(itemIdentifier, "p")
	add(itemOperatorColon, ":")
	add(itemParenLeft, "(")
	add(itemKeywordCtx, "ctx")
	add(itemParenRight, ")")
	add(itemOperatorArrow, "=>")
	return p
}

func verifAtom(rel string) []item {
	return []item{
		verifMk(itemKeywordThis, "this"), verifMk(itemOperatorDot, "."), verifMk(itemIdentifier, "related"),
		verifMk(itemOperatorDot, "."), verifMk(itemIdentifier, rel), verifMk(itemOperatorDot, "."),
		verifMk(itemIdentifier, "includes"), verifMk(itemParenLeft, "("), verifMk(itemKeywordCtx, "ctx"),
		verifMk(itemOperatorDot, "."), verifMk(itemIdentifier, "subject"), verifMk(itemParenRight, ")"),
	}
}

func verifExpand(k int) []item {
	switch k {
	case vtA:
		return verifAtom("a")
	case vtB:
		return verifAtom("b")
	case vtC:
		return verifAtom("c")
	case vtAnd:
		return []item{verifMk(itemOperatorAnd, "&&")}
	case vtOr:
		return []item{verifMk(itemOperatorOr, "||")}
	case vtNot:
		return []item{verifMk(itemOperatorNot, "!")}
	case vtLP:
		return []item{verifMk(itemParenLeft, "(")}
	case vtRP:
		return []item{verifMk(itemParenRight, ")")}
	}
	return []item{verifMk(itemBraceRight, "}"), verifMk(itemBraceRight, "}"), verifMk(itemEOF, "")}
}

// verifNextToken replaces (*lexer).nextNonCommentItem under the executor.
func verifNextToken(l *lexer) item {
	t := &verifTok
	if len(t.queue) > 0 {
		it := t.queue[0]
		t.queue = t.queue[1:]
		return it
	}
	if t.pos < len(t.pre) {
		it := t.pre[t.pos]
		t.pos++
		return it
	}
	if t.done {
		return verifMk(itemEOF, "")
	}
	k := vtEnd
	if t.useFixed {
		if len(t.expr) < len(t.fixed) {
			k = t.fixed[len(t.expr)]
		}
	} else if t.viableOnly {
		// only tokens that keep the prefix inside the reference grammar (and
		// completable within L tokens); the property says nothing about the rest
		var cand []int
		for c := vtA; c <= vtRP; c++ {
			if verifComplete(append(append([]int{}, t.expr...), c), t.L) != nil {
				cand = append(cand, c)
			}
		}
		if full := verifComplete(t.expr, t.L); full != nil && len(full) == len(t.expr) {
			cand = append(cand, vtEnd)
		}
		if len(cand) > 0 {
			k = cand[verifChoice(len(cand))]
		}
	} else if len(t.expr) < t.L {
		k = verifChoice(vtEnd + 1)
	}
	if k == vtEnd {
		t.done = true
	} else {
		t.expr = append(t.expr, k)
	}
	t.queue = verifExpand(k)
	it := t.queue[0]
	t.queue = t.queue[1:]
	return it
}

// ---- reference: the TypeScript boolean fragment -------------------------
// expr := and { "||" and } ; and := unary { "&&" unary } ;
// unary := "!" unary | "(" expr ")" | atom

type verifNode struct {
	op   int // vtA..vtC atoms, vtAnd, vtOr, vtNot
	l, r *verifNode
}

type verifRef struct {
	toks  []int
	pos   int
	depth int
	max   int
}

func (p *verifRef) peek() int {
	if p.pos < len(p.toks) {
		return p.toks[p.pos]
	}
	return vtEnd
}

func (p *verifRef) expr() *verifNode {
	n := p.and()
	for n != nil && p.peek() == vtOr {
		p.pos++
		r := p.and()
		if r == nil {
			return nil
		}
		n = &verifNode{op: vtOr, l: n, r: r}
	}
	return n
}

func (p *verifRef) and() *verifNode {
	n := p.unary()
	for n != nil && p.peek() == vtAnd {
		p.pos++
		r := p.unary()
		if r == nil {
			return nil
		}
		n = &verifNode{op: vtAnd, l: n, r: r}
	}
	return n
}

func (p *verifRef) unary() *verifNode {
	switch k := p.peek(); k {
	case vtNot:
		p.pos++
		p.depth++
		if p.depth > p.max {
			p.max = p.depth
		}
		c := p.unary()
		p.depth--
		if c == nil {
			return nil
		}
		return &verifNode{op: vtNot, l: c}
	case vtLP:
		p.pos++
		p.depth++
		if p.depth > p.max {
			p.max = p.depth
		}
		c := p.expr()
		p.depth--
		if c == nil || p.peek() != vtRP {
			return nil
		}
		p.pos++
		return c
	case vtA, vtB, vtC:
		p.pos++
		return &verifNode{op: k}
	}
	return nil
}

func verifRefParse(toks []int) (*verifNode, int) {
	p := &verifRef{toks: toks}
	n := p.expr()
	if n == nil || p.pos != len(toks) {
		return nil, p.max
	}
	return n, p.max
}

func verifRefEval(n *verifNode, a, b, c bool) bool {
	switch n.op {
	case vtA:
		return a
	case vtB:
		return b
	case vtC:
		return c
	case vtNot:
		return verifNot(verifRefEval(n.l, a, b, c))
	case vtAnd:
		return verifAnd(verifRefEval(n.l, a, b, c), verifRefEval(n.r, a, b, c))
	}
	return verifOr(verifRefEval(n.l, a, b, c), verifRefEval(n.r, a, b, c))
}

// verifEvalChild evaluates keto's rewrite AST the way the check engine
// combines results: or = any child, and = all children, invert = not.
func verifEvalChild(ch ast.Child, a, b, c bool) bool {
	switch n := ch.(type) {
	case *ast.ComputedSubjectSet:
		switch n.Relation {
		case "a":
			return a
		case "b":
			return b
		}
		return c
	case *ast.InvertResult:
		return verifNot(verifEvalChild(n.Child, a, b, c))
	case *ast.SubjectSetRewrite:
		if n.Operation == ast.OperatorAnd {
			r := true
			for _, k := range n.Children {
				r = verifAnd(r, verifEvalChild(k, a, b, c))
			}
			return r
		}
		r := false
		for _, k := range n.Children {
			r = verifOr(r, verifEvalChild(k, a, b, c))
		}
		return r
	}
	verifFail("C10: unexpected node kind in parsed rewrite")
	return false
}

func verifExprString(toks []int) string {
	s := ""
	for i, k := range toks {
		if i > 0 {
			s += " "
		}
		s += verifTokNames[k]
	}
	return s
}

// verifC10Class classifies an expression for the known-findings file: which
// syntactic feature distinguishes it.
func verifC10Class(toks []int, ref *verifNode) string {
	mixed := false
	var walk func(n *verifNode, parent int)
	walk = func(n *verifNode, parent int) {
		if n == nil {
			return
		}
		if (n.op == vtAnd || n.op == vtOr) && (parent == vtAnd || parent == vtOr) && parent != n.op {
			mixed = true
		}
		walk(n.l, n.op)
		walk(n.r, n.op)
	}
	walk(ref, -1)
	notNot, notBeforeBinary := false, false
	for i, k := range toks {
		if k == vtNot && i+1 < len(toks) && toks[i+1] == vtNot {
			notNot = true
		}
	}
	// "!x && y": a ! whose operand is followed by a binary operator
	for i, k := range toks {
		if k == vtNot {
			j := i + 1
			depth := 0
			for j < len(toks) {
				if toks[j] == vtLP {
					depth++
				} else if toks[j] == vtRP {
					depth--
				}
				j++
				if depth == 0 {
					break
				}
			}
			if j < len(toks) && (toks[j] == vtAnd || toks[j] == vtOr) {
				notBeforeBinary = true
			}
		}
	}
	c := ""
	if mixed {
		c += "+mixed-and-or-without-parentheses"
	}
	if notNot {
		c += "+double-negation"
	}
	_ = notBeforeBinary
	if c == "" {
		c = "+plain"
	}
	return c[1:]
}

// verifComplete extends a prefix that the parser stopped reading to the
// shortest expression of the reference grammar with that prefix, if there is
// one of at most max tokens (the parser rejecting a viable prefix rejects
// every expression that starts with it).
func verifComplete(pre []int, max int) []int {
	depth := 0
	expectOperand := true
	for _, k := range pre {
		switch k {
		case vtA, vtB, vtC:
			if !expectOperand {
				return nil
			}
			expectOperand = false
		case vtNot:
			if !expectOperand {
				return nil
			}
		case vtLP:
			if !expectOperand {
				return nil
			}
			depth++
		case vtRP:
			if expectOperand || depth == 0 {
				return nil
			}
			depth--
		case vtAnd, vtOr:
			if expectOperand {
				return nil
			}
			expectOperand = true
		}
	}
	out := append([]int{}, pre...)
	if expectOperand {
		out = append(out, vtA)
	}
	for ; depth > 0; depth-- {
		out = append(out, vtRP)
	}
	if len(out) > max {
		return nil
	}
	return out
}

func verifRender(items []item) string {
	s := ""
	for _, it := range items {
		s += it.Val + " "
	}
	return s
}

func verifC10Run() {
	verifTok.pre = verifClassPrefix()
	var ns []namespace
	var errs []*ParseError
	if verifNative() {
		// native replay: render the tokens and run the real lexer and parser
		text := verifRender(verifTok.pre)
		for _, k := range verifTok.fixed {
			text += verifRender(verifExpand(k))
		}
		text += "} }"
		ns, errs = Parse(text)
		verifTok.expr = verifTok.fixed
		verifTok.done = true
	} else {
		ns, errs = Parse("")
	}
	toks := verifTok.expr
	if !verifTok.done {
		// the parser gave up before reading the whole expression
		max := verifTok.L
		if verifTok.useFixed {
			max = len(verifTok.fixed)
		}
		full := verifComplete(toks, max)
		if full == nil {
			return
		}
		verifCover("c10.parser-stopped-on-viable-prefix")
		toks = full
	}
	ref, nest := verifRefParse(toks)
	verifNote("expression: " + verifExprString(toks))
	if ref == nil {
		// outside the TypeScript fragment: nothing is required
		if len(errs) == 0 {
			verifCover("c10.accepted-outside-reference-grammar")
		}
		return
	}
	verifTag(verifC10Class(toks, ref))
	verifReach("c10.reference-accepts")
	if !verifTok.useFixed && len(toks) <= 12 {
		verifReplayAs("HarnessC10Fixed")
		verifReplayParam("n", len(toks))
	}
	for i, k := range toks {
		if verifTok.useFixed || len(toks) > 12 {
			break
		}
		verifReplayParam([]string{"e0", "e1", "e2", "e3", "e4", "e5", "e6", "e7", "e8", "e9", "e10", "e11"}[i], k)
	}
	if nest >= expressionNestingMaxDepth {
		// nesting beyond the documented limit may be rejected
		return
	}
	verifAssert(len(errs) == 0, "C10: an expression of the documented grammar is rejected")
	if len(errs) != 0 {
		return
	}
	if len(ns) != 1 || len(ns[0].Relations) != 4 || ns[0].Relations[3].SubjectSetRewrite == nil {
		verifFail("C10: parsed namespace does not have the shape of the source (3 relations + 1 permission)")
		return
	}
	rw := ns[0].Relations[3].SubjectSetRewrite
	const msg = "C10: the parsed rewrite and the TypeScript expression differ on some valuation of the atoms"
	if verifNative() {
		for m := 0; m < 8; m++ {
			a, b, c := m&1 != 0, m&2 != 0, m&4 != 0
			verifAssert(verifEvalChild(rw, a, b, c) == verifRefEval(ref, a, b, c), msg)
		}
		return
	}
	a, b, c := verifBool(), verifBool(), verifBool()
	verifAssert(verifEvalChild(rw, a, b, c) == verifRefEval(ref, a, b, c), msg)
}

// HarnessC10Tokens: all expressions of up to L tokens.
func HarnessC10Tokens() {
	verifTok = verifTokState{L: verifParam("L"), viableOnly: verifParam("viable") == 1}
	verifC10Run()
}

// HarnessC10Fixed: one expression given by parameters n, e0..e{n-1}.
func HarnessC10Fixed() {
	n := verifParam("n")
	var f []int
	names := []string{"e0", "e1", "e2", "e3", "e4", "e5", "e6", "e7", "e8", "e9", "e10", "e11"}
	for i := 0; i < n; i++ {
		f = append(f, verifParam(names[i]))
	}
	verifTok = verifTokState{useFixed: true, fixed: f}
	verifC10Run()
}

// HarnessC10Nesting: chains of nested '(' / '!' / '!(' around one atom, up to
// and beyond the documented nesting limit.
func HarnessC10Nesting() {
	k := verifChoice(11) + 1
	kind := verifChoice(3)
	var f []int
	switch kind {
	case 0:
		for i := 0; i < k; i++ {
			f = append(f, vtLP)
		}
		f = append(f, vtB)
		for i := 0; i < k; i++ {
			f = append(f, vtRP)
		}
	case 1:
		// !(!(...(B)...)) : k levels of "!("
		for i := 0; i < k; i++ {
			f = append(f, vtNot, vtLP)
		}
		f = append(f, vtB)
		for i := 0; i < k; i++ {
			f = append(f, vtRP)
		}
	default:
		// (A && (A && ... (B) ...))
		for i := 0; i < k; i++ {
			f = append(f, vtLP, vtA, vtAnd)
		}
		f = append(f, vtB)
		for i := 0; i < k; i++ {
			f = append(f, vtRP)
		}
	}
	verifTok = verifTokState{useFixed: true, fixed: f}
	verifC10Run()
}
