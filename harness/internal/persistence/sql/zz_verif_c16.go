//go:build verif

package sql

import (
	"context"
	"strconv"

	"github.com/gobuffalo/pop/v6"
	"github.com/gofrs/uuid"

	"github.com/ory/keto/internal/x"
)

// C16 (SQL side): the SQL mapping manager (MapStringsToUUIDs, batchFromUUIDs /
// MapUUIDsToStrings) on the database model's keto_uuid_mappings table.

// adversarial names: empty, a NUL byte (alone and as the only difference to
// another name), case, two Unicode spellings of one glyph, trailing blank, a
// separator-looking name, invalid UTF-8, a control character
var c16Pool = []string{"", "a", "a\x00", "\x00", "A", "\u00e9", "e\u0301", "a ", "N:o#r@s", "\xff", "a\n"}

func c16Reset() {
	db = &dbState{}
	dbInserted = nil
	dbQueries = map[*pop.Query]*dbQuery{}
	dbBase = &pop.Connection{}
	verifPopDialect(dbBase, []string{"sqlite3", "postgres", "cockroach", "mysql"}[verifParam("dialect")])
}

// HarnessC16SQLMapping: from an arbitrary consistent table (any subset of the
// pool's mappings of two networks present), a batch of n positions over the
// pool (repeats allowed) is written and read back with lookup pages of 1..3
// (or the default 100), in every iteration order of the id map.
func HarnessC16SQLMapping() {
	c16Reset()
	nmax := verifParam("nmax")
	pool := c16Pool[:verifParam("pool")]
	p := newModelPersister(0)
	other := dbNID(1)
	ctx := context.Background()
	for _, s := range pool {
		db.maps = append(db.maps, dbMapRow{present: verifBool(), id: uuid.NewV5(other, s), str: s})
	}
	for i := len(pool) - 1; i >= 0; i-- {
		// table order differs from pool order
		db.maps = append(db.maps, dbMapRow{present: verifBool(), id: uuid.NewV5(p.nid, pool[i]), str: pool[i]})
	}
	n := 1 + verifChoice(nmax)
	vals := make([]string, n)
	for i := range vals {
		vals[i] = pool[verifChoice(len(pool))]
	}
	page := verifChoice(4) // 0 = default page (100)
	tag := "page=" + strconv.Itoa(page) + " n=" + strconv.Itoa(n)
	if verifChoice(2) == 0 {
		verifTag("write-read " + tag)
		ids, err := p.MapStringsToUUIDs(ctx, vals...)
		verifAssert(err == nil && len(ids) == n, "C16: MapStringsToUUIDs fails or returns a different number of ids")
		if err != nil || len(ids) != n {
			return
		}
		for i := range vals {
			for j := range vals {
				verifAssert((vals[i] == vals[j]) == (ids[i] == ids[j]), "C16: equal strings get different ids or different strings the same id")
			}
		}
		out, err := p.batchFromUUIDs(ctx, ids, x.WithSize(page))
		verifReach("c16.sql.roundtrip")
		verifAssert(err == nil && len(out) == n, "C16: batchFromUUIDs fails or returns a different number of strings")
		if err != nil || len(out) != n {
			return
		}
		for i := range vals {
			verifAssert(out[i] == vals[i], "C16: a written string is not read back at its position")
		}
		// the table stays a function id -> string
		for i := range db.maps {
			for j := range db.maps {
				if i != j && db.maps[i].id == db.maps[j].id {
					verifAssert(!verifAnd(db.maps[i].present, db.maps[j].present), "C16: two mapping rows with one id")
				}
			}
		}
		return
	}
	// read only: ids of strings that may or may not be mapped
	verifTag("read-only " + tag)
	ids := make([]uuid.UUID, n)
	for i := range ids {
		ids[i] = uuid.NewV5(p.nid, vals[i])
	}
	pre := append([]dbMapRow(nil), db.maps...)
	out, err := p.batchFromUUIDs(ctx, ids, x.WithSize(page))
	verifReach("c16.sql.read")
	verifAssert(err == nil && len(out) == n, "C16: batchFromUUIDs fails or returns a different number of strings")
	if err != nil || len(out) != n {
		return
	}
	for i := range ids {
		want, have := "", false
		for _, r := range pre {
			if r.id == ids[i] && verifConcretizeBool(r.present) {
				want, have = r.str, true
			}
		}
		_ = have
		verifAssert(out[i] == want, "C16: a looked-up id does not yield its stored string at its position (or an unknown id yields a string)")
	}
}

// HarnessC16SQLLarge: batches around the lookup page of 100 at the default page
// size, with repeated values.
// names that parse as UUIDs (two spellings of one UUID) and a plain one
var c16UUIDNames = []string{"6741ddf6-3b3f-4f4c-9d1a-2f6f3e0a1b2c", "6741DDF6-3B3F-4F4C-9D1A-2F6F3E0A1B2C", "a"}

// HarnessC16SQLTwoNetworks: two networks share the mapping table (it has no
// network column; its ids are UUIDv5(network, name)). Network A writes a name,
// network B writes a name (possibly another spelling of the same UUID-looking
// text) and reads its own ids back: B gets what B wrote, A what A wrote.
func HarnessC16SQLTwoNetworks() {
	c16Reset()
	pa, pb := newModelPersister(1), newModelPersister(0)
	ctx := context.Background()
	va := c16UUIDNames[verifChoice(len(c16UUIDNames))]
	vb := c16UUIDNames[verifChoice(len(c16UUIDNames))]
	ia, err := pa.MapStringsToUUIDs(ctx, va)
	if err != nil || len(ia) != 1 {
		verifFail("C16: MapStringsToUUIDs fails")
		return
	}
	ib, err := pb.MapStringsToUUIDs(ctx, vb)
	if err != nil || len(ib) != 1 {
		verifFail("C16: MapStringsToUUIDs fails")
		return
	}
	oa, err1 := pa.MapUUIDsToStrings(ctx, ia...)
	ob, err2 := pb.MapUUIDsToStrings(ctx, ib...)
	verifReach("c16.sql.two-networks")
	if err1 != nil || err2 != nil || len(oa) != 1 || len(ob) != 1 {
		verifFail("C16: MapUUIDsToStrings fails")
		return
	}
	verifAssert(oa[0] == va, "C16: a network reads back a name another network wrote (or a different spelling)")
	verifAssert(ob[0] == vb, "C16: a network reads back a name another network wrote (or a different spelling)")
}

// HarnessC16SQLRollback: a write maps its names inside a transaction that is
// then rolled back (a later statement fails, the request is cancelled, the
// transaction is retried); the same process writes the same names again and
// reads them back.
func HarnessC16SQLRollback() {
	c16Reset()
	pool := c16Pool[:4]
	p := newModelPersister(0)
	ctx := context.Background()
	vals := []string{pool[verifChoice(len(pool))], pool[verifChoice(len(pool))]}
	err := p.Transaction(ctx, func(ctx context.Context) error {
		if _, e := p.MapStringsToUUIDs(ctx, vals...); e != nil {
			return e
		}
		return errDB // the rest of the request fails
	})
	verifAssert(err != nil, "C16: a failing transaction reports success")
	for i := range db.maps {
		verifAssert(!verifConcretizeBool(db.maps[i].present), "C16: a rolled-back write leaves name mappings behind")
	}
	ids, err := p.MapStringsToUUIDs(ctx, vals...)
	if err != nil || len(ids) != len(vals) {
		verifFail("C16: MapStringsToUUIDs fails after a rolled-back attempt")
		return
	}
	out, err := p.MapUUIDsToStrings(ctx, ids...)
	verifReach("c16.sql.rollback")
	if err != nil || len(out) != len(vals) {
		verifFail("C16: MapUUIDsToStrings fails after a rolled-back attempt")
		return
	}
	for i := range vals {
		verifAssert(out[i] == vals[i], "C16: names written after a rolled-back attempt are not read back (their mappings were never stored)")
	}
}

func HarnessC16SQLLarge() {
	c16Reset()
	p := newModelPersister(0)
	ctx := context.Background()
	distinct := 99 + verifChoice(4)*verifParam("step") // 99, 100, 101, 102 (step 1) or 99, 149, 199, 249 (step 50)
	var vals []string
	for i := 0; i < distinct; i++ {
		vals = append(vals, "v"+strconv.Itoa(i))
	}
	switch verifChoice(4) {
	case 1: // the first value again at the end, three times
		vals = append(vals, vals[0], vals[0], vals[0])
	case 2: // every value twice, interleaved
		var d []string
		for _, v := range vals {
			d = append(d, v, v)
		}
		vals = d
	case 3: // every value twice, block-wise
		vals = append(vals, vals...)
	}
	// half of the mappings exist already
	if verifChoice(2) == 1 {
		for i := 0; i < distinct; i += 2 {
			db.maps = append(db.maps, dbMapRow{present: true, id: uuid.NewV5(p.nid, "v"+strconv.Itoa(i)), str: "v" + strconv.Itoa(i)})
		}
	}
	verifTag("distinct=" + strconv.Itoa(distinct) + " positions=" + strconv.Itoa(len(vals)))
	ids, err := p.MapStringsToUUIDs(ctx, vals...)
	verifAssert(err == nil && len(ids) == len(vals), "C16: MapStringsToUUIDs fails or returns a different number of ids")
	if err != nil || len(ids) != len(vals) {
		return
	}
	out, err := p.MapUUIDsToStrings(ctx, ids...)
	verifReach("c16.sql.large")
	verifAssert(err == nil && len(out) == len(vals), "C16: MapUUIDsToStrings fails or returns a different number of strings")
	if err != nil || len(out) != len(vals) {
		return
	}
	ok := true
	for i := range vals {
		if out[i] != vals[i] {
			ok = false
		}
	}
	verifAssert(ok, "C16: a written string is not read back at its position (batch beyond the lookup page)")
	present := 0
	for i := range db.maps {
		if db.maps[i].present {
			present++
		}
	}
	verifAssert(present == distinct, "C16: the mapping table does not hold exactly one row per distinct string")
}
