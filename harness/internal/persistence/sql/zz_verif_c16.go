//go:build verif

package sql

import (
	"context"
	"strconv"

	"github.com/gobuffalo/pop/v6"
	"github.com/gofrs/uuid"

	"github.com/ory/keto/internal/x"
)

// C16 (SQL side): the SQL mapping manager (MapStringsToUUIDs, batchFromUUIDs /
// MapUUIDsToStrings) on the database model's keto_uuid_mappings table.

// adversarial names: empty, a NUL byte (alone and as the only difference to
// another name), case, two Unicode spellings of one glyph, trailing blank, a
// separator-looking name, invalid UTF-8, a control character
var c16Pool = []string{"", "a", "a\x00", "\x00", "A", "\u00e9", "e\u0301", "a ", "N:o#r@s", "\xff", "a\n"}

func c16Reset() {
	db = &dbState{}
	dbInserted = nil
	dbQueries = map[*pop.Query]*dbQuery{}
	dbBase = &pop.Connection{}
	verifPopDialect(dbBase, []string{"sqlite3", "postgres", "cockroach", "mysql"}[verifParam("dialect")])
}

// HarnessC16SQLMapping: from an arbitrary consistent table (any subset of the
// pool's mappings of two networks present), a batch of n positions over the
// pool (repeats allowed) is written and read back with lookup pages of 1..3
// (or the default 100), in every iteration order of the id map.
func HarnessC16SQLMapping() {
	c16Reset()
	nmax := verifParam("nmax")
	pool := c16Pool[:verifParam("pool")]
	p := newModelPersister(0)
	other := dbNID(1)
	ctx := context.Background()
	for _, s := range pool {
		db.maps = append(db.maps, dbMapRow{present: verifBool(), id: uuid.NewV5(other, s), str: s})
	}
	for i := len(pool) - 1; i >= 0; i-- {
		// table order differs from pool order
		db.maps = append(db.maps, dbMapRow{present: verifBool(), id: uuid.NewV5(p.nid, pool[i]), str: pool[i]})
	}
	n := 1 + verifChoice(nmax)
	vals := make([]string, n)
	for i := range vals {
		vals[i] = pool[verifChoice(len(pool))]
	}
	page := verifChoice(4) // 0 = default page (100)
	tag := "page=" + strconv.Itoa(page) + " n=" + strconv.Itoa(n)
	if verifChoice(2) == 0 {
		verifTag("write-read " + tag)
		ids, err := p.MapStringsToUUIDs(ctx, vals...)
		verifAssert(err == nil && len(ids) == n, "C16: MapStringsToUUIDs fails or returns a different number of ids")
		if err != nil || len(ids) != n {
			return
		}
		for i := range vals {
			for j := range vals {
				verifAssert((vals[i] == vals[j]) == (ids[i] == ids[j]), "C16: equal strings get different ids or different strings the same id")
			}
		}
		out, err := p.batchFromUUIDs(ctx, ids, x.WithSize(page))
		verifReach("c16.sql.roundtrip")
		verifAssert(err == nil && len(out) == n, "C16: batchFromUUIDs fails or returns a different number of strings")
		if err != nil || len(out) != n {
			return
		}
		for i := range vals {
			verifAssert(out[i] == vals[i], "C16: a written string is not read back at its position")
		}
		// the table stays a function id -> string
		for i := range db.maps {
			for j := range db.maps {
				if i != j && db.maps[i].id == db.maps[j].id {
					verifAssert(!verifAnd(db.maps[i].present, db.maps[j].present), "C16: two mapping rows with one id")
				}
			}
		}
		return
	}
	// read only: ids of strings that may or may not be mapped
	verifTag("read-only " + tag)
	ids := make([]uuid.UUID, n)
	for i := range ids {
		ids[i] = uuid.NewV5(p.nid, vals[i])
	}
	pre := append([]dbMapRow(nil), db.maps...)
	out, err := p.batchFromUUIDs(ctx, ids, x.WithSize(page))
	verifReach("c16.sql.read")
	verifAssert(err == nil && len(out) == n, "C16: batchFromUUIDs fails or returns a different number of strings")
	if err != nil || len(out) != n {
		return
	}
	for i := range ids {
		want, have := "", false
		for _, r := range pre {
			if r.id == ids[i] && verifConcretizeBool(r.present) {
				want, have = r.str, true
			}
		}
		_ = have
		verifAssert(out[i] == want, "C16: a looked-up id does not yield its stored string at its position (or an unknown id yields a string)")
	}
}

// HarnessC16SQLLarge: batches around the lookup page of 100 at the default page
// size, with repeated values.
func HarnessC16SQLLarge() {
	c16Reset()
	p := newModelPersister(0)
	ctx := context.Background()
	distinct := 99 + verifChoice(4)*verifParam("step") // 99, 100, 101, 102 (step 1) or 99, 149, 199, 249 (step 50)
	var vals []string
	for i := 0; i < distinct; i++ {
		vals = append(vals, "v"+strconv.Itoa(i))
	}
	switch verifChoice(4) {
	case 1: // the first value again at the end, three times
		vals = append(vals, vals[0], vals[0], vals[0])
	case 2: // every value twice, interleaved
		var d []string
		for _, v := range vals {
			d = append(d, v, v)
		}
		vals = d
	case 3: // every value twice, block-wise
		vals = append(vals, vals...)
	}
	// half of the mappings exist already
	if verifChoice(2) == 1 {
		for i := 0; i < distinct; i += 2 {
			db.maps = append(db.maps, dbMapRow{present: true, id: uuid.NewV5(p.nid, "v"+strconv.Itoa(i)), str: "v" + strconv.Itoa(i)})
		}
	}
	verifTag("distinct=" + strconv.Itoa(distinct) + " positions=" + strconv.Itoa(len(vals)))
	ids, err := p.MapStringsToUUIDs(ctx, vals...)
	verifAssert(err == nil && len(ids) == len(vals), "C16: MapStringsToUUIDs fails or returns a different number of ids")
	if err != nil || len(ids) != len(vals) {
		return
	}
	out, err := p.MapUUIDsToStrings(ctx, ids...)
	verifReach("c16.sql.large")
	verifAssert(err == nil && len(out) == len(vals), "C16: MapUUIDsToStrings fails or returns a different number of strings")
	if err != nil || len(out) != len(vals) {
		return
	}
	ok := true
	for i := range vals {
		if out[i] != vals[i] {
			ok = false
		}
	}
	verifAssert(ok, "C16: a written string is not read back at its position (batch beyond the lookup page)")
	present := 0
	for i := range db.maps {
		if db.maps[i].present {
			present++
		}
	}
	verifAssert(present == distinct, "C16: the mapping table does not hold exactly one row per distinct string")
}
