//go:build verif

package sql

// The database model: keto talks to SQL through pop. In symbolic runs the pop
// boundary (Connection.WithContext/Where/RawQuery, Query.Where/Order/Limit/
// All/Exists/Delete/Exec, popx.Transaction/GetConnection, sqlcon.HandleError)
// is overridden by the functions below, which evaluate the SQL text and the
// arguments produced by the real keto code against a model table of K row
// slots with symbolic content. Slot index = shard_id order.

import (
	"context"
	dbsql "database/sql"
	"errors"
	"strings"

	"github.com/gobuffalo/pop/v6"
	"github.com/gofrs/uuid"
	"github.com/ory/x/configx"
	"github.com/ory/x/logrusx"
	"github.com/ory/x/otelx"

	"github.com/ory/keto/internal/driver/config"
	"github.com/ory/keto/ketoctx"
)

// ---- pools ---------------------------------------------------------------------

var (
	dbNS   = []string{"N", "M"}
	dbRels = []string{"r", "s"}
)

// Names and ids are "fixed bytes + one byte that carries the pool index", so
// an index may be symbolic: the real keto code then moves symbolic strings and
// UUIDs around and the model decodes them back without forking.
func dbNID(i int) uuid.UUID { var u uuid.UUID; u[0] = 0xD0; u[15] = byte(i + 1); return u }
func dbObj(i int) uuid.UUID { var u uuid.UUID; u[0] = 0x0B; u[15] = byte(i + 1); return u }

// dbNSName / dbRelName: one-letter names 'N','M' / 'r','s' chosen by index.
func dbNSName(i int) string  { return string([]byte{byte(verifIte(verifEq(i, 0), 'N', 'M'))}) }
func dbRelName(i int) string { return string([]byte{byte(verifIte(verifEq(i, 0), 'r', 's'))}) }

func nsIndexOf(s string) int {
	if len(s) != 1 {
		return -1
	}
	return verifIte(s[0] == 'N', 0, verifIte(s[0] == 'M', 1, -1))
}

// dbRelEmpty is the index of the empty relation (subject sets "ns:obj#" only).
const dbRelEmpty = 2

// dbSetRelName: the relation of a subject set may also be empty; whether it is
// gets concretised (the two names have different lengths).
func dbSetRelName(i int) string {
	if verifConcretizeBool(verifEq(i, dbRelEmpty)) {
		return ""
	}
	return dbRelName(i)
}

func relIndexOf(s string) int {
	if len(s) == 0 {
		return dbRelEmpty
	}
	if len(s) != 1 {
		return -1
	}
	return verifIte(s[0] == 'r', 0, verifIte(s[0] == 's', 1, -1))
}
func dbShard(i int) uuid.UUID { var u uuid.UUID; u[0] = 0x55; u[14] = byte((i + 1) >> 8); u[15] = byte(i + 1); return u }

const dbObjs = 3

func dbShardIndex(u uuid.UUID) int {
	if u == uuid.Nil {
		return -1
	}
	if u[0] != 0x55 {
		return -2
	}
	return (int(u[14])<<8 | int(u[15])) - 1
}

func dbObjIndex(u uuid.UUID) int {
	// u[15]-1 when the fixed bytes are those of the object pool, else -1
	ok := verifAnd(u[0] == 0x0B, verifLess(int(u[15]), dbObjs+1))
	return verifIte(ok, int(u[15])-1, -1)
}

func indexOf(pool []string, s string) int {
	for i, x := range pool {
		if x == s {
			return i
		}
	}
	return -1
}

// ---- the model table --------------------------------------------------------------

type dbRow struct {
	present bool
	nid     int
	ns      int
	obj     int
	rel     int
	isSet   bool // subject set columns non-NULL (else subject_id non-NULL)
	sid     int
	sns     int
	sobj    int
	srel    int
}

// one row of keto_uuid_mappings (primary key id)
type dbMapRow struct {
	present bool
	id      uuid.UUID
	str     string
}

type dbState struct {
	rows       []dbRow
	maps       []dbMapRow
	ops        int  // terminal operations executed
	failAt     int  // terminal operation that fails (0 = none)
	retryable  bool // the injected failure is one after which popx.Transaction re-runs the callback
	retried    bool
	failed     int
	mutating   int  // mutating statements executed
	outsideTx  int  // statements issued while a transaction is open but not through it
	txOpen     int
	txConn     *pop.Connection
	statements []string
}

var db *dbState

var errDB = errors.New("verif: injected database failure")

func dbSymRows(k int) []dbRow {
	rows := make([]dbRow, k)
	for i := range rows {
		rows[i] = dbRow{
			present: verifBool(),
			nid:     verifIntRange(0, 1),
			ns:      verifIntRange(0, len(dbNS)-1),
			obj:     verifIntRange(0, dbObjs-1),
			rel:     verifIntRange(0, len(dbRels)-1),
			isSet:   verifBool(),
			sid:     verifIntRange(0, dbObjs-1),
			sns:     verifIntRange(0, len(dbNS)-1),
			sobj:    verifIntRange(0, dbObjs-1),
			srel:    verifIntRange(0, len(dbRels)-1+verifParamOr("emptyRel", 0)),
		}
	}
	return rows
}

func dbCopyRows(r []dbRow) []dbRow { return append([]dbRow(nil), r...) }

// dbObjSym: the object/subject UUID of a (possibly symbolic) pool index.
func dbObjSym(i int) uuid.UUID {
	var u uuid.UUID
	u[0] = 0x0B
	u[15] = byte(i + 1)
	return u
}

func dbNIDSym(i int) uuid.UUID {
	var u uuid.UUID
	u[0] = 0xD0
	u[15] = byte(i + 1)
	return u
}

// materialise returns slot i as the struct pop would scan. Only the subject
// kind becomes concrete (ToInternal branches on it); names and ids keep their
// symbolic index inside the string / UUID bytes.
func (s *dbState) materialise(i int) *RelationTuple {
	r := &s.rows[i]
	r.isSet = verifConcretizeBool(r.isSet)
	rt := &RelationTuple{ID: dbShard(i), NetworkID: dbNIDSym(r.nid), Namespace: dbNSName(r.ns), Object: dbObjSym(r.obj), Relation: dbRelName(r.rel)}
	if r.isSet {
		rt.SubjectSetNamespace = dbsql.NullString{String: dbNSName(r.sns), Valid: true}
		rt.SubjectSetObject = uuid.NullUUID{UUID: dbObjSym(r.sobj), Valid: true}
		rt.SubjectSetRelation = dbsql.NullString{String: dbSetRelName(r.srel), Valid: true}
	} else {
		rt.SubjectID = uuid.NullUUID{UUID: dbObjSym(r.sid), Valid: true}
	}
	return rt
}

// ---- SQL: tokens, AST, parser ---------------------------------------------------------

type sqlTok struct {
	kind string // ident, ?, sym, num
	text string
}

func sqlLex(s string) []sqlTok {
	var out []sqlTok
	i := 0
	for i < len(s) {
		c := s[i]
		switch {
		case c == ' ' || c == '\n' || c == '\t' || c == '\r':
			i++
		case c == '-' && i+1 < len(s) && s[i+1] == '-':
			for i < len(s) && s[i] != '\n' {
				i++
			}
		case c == '?':
			out = append(out, sqlTok{"?", "?"})
			i++
		case c == '(' || c == ')' || c == ',' || c == '=' || c == '>' || c == '<' || c == '*':
			out = append(out, sqlTok{"sym", string(c)})
			i++
		case c >= '0' && c <= '9':
			j := i
			for j < len(s) && s[j] >= '0' && s[j] <= '9' {
				j++
			}
			out = append(out, sqlTok{"num", s[i:j]})
			i = j
		default:
			j := i
			for j < len(s) && (s[j] == '_' || s[j] == '.' || (s[j] >= 'a' && s[j] <= 'z') || (s[j] >= 'A' && s[j] <= 'Z') || (s[j] >= '0' && s[j] <= '9')) {
				j++
			}
			if j == i {
				panic("verif db model: cannot lex SQL at: " + s[i:])
			}
			out = append(out, sqlTok{"ident", s[i:j]})
			i = j
		}
	}
	return out
}

type sqlExpr struct {
	op    string // and, or, eq, gt, isnull, in, exists, col, arg
	l, r  *sqlExpr
	col   string // qualified or bare column
	arg   int    // placeholder index
	sub   *sqlSelect
}

type sqlItem struct {
	expr *sqlExpr
	as   string
}

type sqlSelect struct {
	items    []sqlItem
	table    string
	alias    string
	where    *sqlExpr
	order    string
	limitArg int // placeholder index of LIMIT ?, -1 none
}

type sqlParser struct {
	toks []sqlTok
	pos  int
	nArg int
}

func (p *sqlParser) peek() sqlTok {
	if p.pos < len(p.toks) {
		return p.toks[p.pos]
	}
	return sqlTok{"eof", ""}
}
func (p *sqlParser) next() sqlTok { t := p.peek(); p.pos++; return t }
func (p *sqlParser) isKw(k string) bool {
	t := p.peek()
	return t.kind == "ident" && strings.EqualFold(t.text, k)
}
func (p *sqlParser) expectKw(k string) {
	if !p.isKw(k) {
		panic("verif db model: expected " + k + " got " + p.peek().text)
	}
	p.pos++
}
func (p *sqlParser) expectSym(s string) {
	t := p.next()
	if t.kind != "sym" || t.text != s {
		panic("verif db model: expected '" + s + "' got '" + t.text + "'")
	}
}

func (p *sqlParser) cond() *sqlExpr {
	l := p.and()
	for p.isKw("OR") {
		p.pos++
		r := p.and()
		l = &sqlExpr{op: "or", l: l, r: r}
	}
	return l
}

func (p *sqlParser) and() *sqlExpr {
	l := p.prim()
	for p.isKw("AND") {
		p.pos++
		r := p.prim()
		l = &sqlExpr{op: "and", l: l, r: r}
	}
	return l
}

func (p *sqlParser) operand() *sqlExpr {
	t := p.next()
	switch t.kind {
	case "?":
		e := &sqlExpr{op: "arg", arg: p.nArg}
		p.nArg++
		return e
	case "ident":
		return &sqlExpr{op: "col", col: t.text}
	}
	panic("verif db model: unexpected operand " + t.text)
}

func (p *sqlParser) prim() *sqlExpr {
	t := p.peek()
	if t.kind == "sym" && t.text == "(" {
		p.pos++
		e := p.cond()
		p.expectSym(")")
		return e
	}
	if p.isKw("EXISTS") {
		p.pos++
		p.expectSym("(")
		sub := p.selectStmt()
		p.expectSym(")")
		return &sqlExpr{op: "exists", sub: sub}
	}
	l := p.operand()
	switch {
	case p.peek().kind == "sym" && p.peek().text == "=":
		p.pos++
		return &sqlExpr{op: "eq", l: l, r: p.operand()}
	case p.peek().kind == "sym" && p.peek().text == ">":
		p.pos++
		return &sqlExpr{op: "gt", l: l, r: p.operand()}
	case p.isKw("IS"):
		p.pos++
		p.expectKw("NULL")
		return &sqlExpr{op: "isnull", l: l}
	case p.isKw("IN"):
		p.pos++
		p.expectSym("(")
		r := p.operand()
		p.expectSym(")")
		return &sqlExpr{op: "in", l: l, r: r}
	}
	panic("verif db model: unsupported condition near " + p.peek().text)
}

func (p *sqlParser) selectStmt() *sqlSelect {
	p.expectKw("SELECT")
	s := &sqlSelect{limitArg: -1}
	for {
		var it sqlItem
		switch {
		case p.isKw("EXISTS"):
			it.expr = p.prim()
		case p.peek().kind == "num" || (p.peek().kind == "sym" && p.peek().text == "*"):
			p.pos++
			it.expr = &sqlExpr{op: "const"}
		default:
			it.expr = p.operand()
		}
		if p.isKw("AS") {
			p.pos++
			it.as = p.next().text
		}
		s.items = append(s.items, it)
		if p.peek().kind == "sym" && p.peek().text == "," {
			p.pos++
			continue
		}
		break
	}
	p.expectKw("FROM")
	s.table = p.next().text
	if p.isKw("AS") {
		p.pos++
		s.alias = p.next().text
	}
	if p.isKw("WHERE") {
		p.pos++
		s.where = p.cond()
	}
	if p.isKw("ORDER") {
		p.pos++
		p.expectKw("BY")
		s.order = p.next().text
	}
	if p.isKw("LIMIT") {
		p.pos++
		if p.peek().kind == "?" {
			p.pos++
			s.limitArg = p.nArg
			p.nArg++
		} else {
			p.pos++
		}
	}
	return s
}

// ---- evaluation ------------------------------------------------------------------------

// colVal: the (index-space) value of a column of row i. kind: "nid","ns","obj",
// "rel","shard"; null reports SQL NULL (as a possibly symbolic bool).
type dbVal struct {
	kind string
	idx  int  // possibly symbolic
	null bool // possibly symbolic
}

func (s *dbState) colVal(i int, col string) dbVal {
	r := &s.rows[i]
	switch col {
	case "shard_id":
		return dbVal{kind: "shard", idx: i}
	case "nid":
		return dbVal{kind: "nid", idx: r.nid}
	case "namespace":
		return dbVal{kind: "ns", idx: r.ns}
	case "object":
		return dbVal{kind: "obj", idx: r.obj}
	case "relation":
		return dbVal{kind: "rel", idx: r.rel}
	case "subject_id":
		return dbVal{kind: "obj", idx: r.sid, null: r.isSet}
	case "subject_set_namespace":
		return dbVal{kind: "ns", idx: r.sns, null: verifNot(r.isSet)}
	case "subject_set_object":
		return dbVal{kind: "obj", idx: r.sobj, null: verifNot(r.isSet)}
	case "subject_set_relation":
		return dbVal{kind: "rel", idx: r.srel, null: verifNot(r.isSet)}
	}
	panic("verif db model: unknown column " + col)
}

// argVal maps a Go argument to the index space of the given kind.
func argVal(a interface{}, kind string) (idx int, null bool, list []int) {
	switch v := a.(type) {
	case uuid.UUID:
		switch kind {
		case "nid":
			return verifIte(v[0] == 0xD0, int(v[15])-1, -9), false, nil
		case "shard":
			return dbShardIndex(v), false, nil
		default:
			return dbObjIndex(v), false, nil
		}
	case *uuid.UUID:
		if v == nil {
			return 0, true, nil
		}
		return argVal(*v, kind)
	case uuid.NullUUID:
		if !v.Valid {
			return 0, true, nil
		}
		return argVal(v.UUID, kind)
	case string:
		if kind == "ns" {
			return nsIndexOf(v), false, nil
		}
		return relIndexOf(v), false, nil
	case *string:
		if v == nil {
			return 0, true, nil
		}
		return argVal(*v, kind)
	case dbsql.NullString:
		if !v.Valid {
			return 0, true, nil
		}
		return argVal(v.String, kind)
	case []string:
		for _, x := range v {
			i, _, _ := argVal(x, kind)
			list = append(list, i)
		}
		return 0, false, list
	}
	panic("verif db model: unsupported SQL argument type")
}

type evalEnv struct {
	s     *dbState
	row   int            // current row of the innermost table
	alias map[string]int // alias -> row
	args  []interface{}
}

func (e *evalEnv) col(name string) dbVal {
	if k := strings.IndexByte(name, '.'); k >= 0 {
		row, ok := e.alias[name[:k]]
		if !ok {
			panic("verif db model: unknown alias in " + name)
		}
		return e.s.colVal(row, name[k+1:])
	}
	return e.s.colVal(e.row, name)
}

func (e *evalEnv) eval(x *sqlExpr) bool {
	switch x.op {
	case "and":
		return verifAnd(e.eval(x.l), e.eval(x.r))
	case "or":
		return verifOr(e.eval(x.l), e.eval(x.r))
	case "isnull":
		return e.col(x.l.col).null
	case "eq", "gt":
		l := e.col(x.l.col)
		var ridx int
		var rnull bool
		if x.r.op == "col" {
			r := e.col(x.r.col)
			ridx, rnull = r.idx, r.null
		} else {
			ridx, rnull, _ = argVal(e.args[x.r.arg], l.kind)
		}
		// SQL: a comparison with NULL is not true
		notNull := verifAnd(verifNot(l.null), verifNot(rnull))
		if x.op == "eq" {
			return verifAnd(notNull, verifEq(l.idx, ridx))
		}
		return verifAnd(notNull, verifLess(ridx, l.idx))
	case "in":
		l := e.col(x.l.col)
		_, _, list := argVal(e.args[x.r.arg], l.kind)
		any := false
		for _, v := range list {
			any = verifOr(any, verifEq(l.idx, v))
		}
		return verifAnd(verifNot(l.null), any)
	case "exists":
		return e.s.existsSelect(x.sub, e)
	}
	panic("verif db model: cannot evaluate " + x.op)
}

func (s *dbState) existsSelect(sel *sqlSelect, outer *evalEnv) bool {
	any := false
	for i := range s.rows {
		env := &evalEnv{s: s, row: i, alias: outer.alias, args: outer.args}
		if sel.alias != "" {
			env.alias = map[string]int{}
			for k, v := range outer.alias {
				env.alias[k] = v
			}
			env.alias[sel.alias] = i
		}
		c := s.rows[i].present
		if sel.where != nil {
			c = verifAnd(c, env.eval(sel.where))
		}
		any = verifOr(any, c)
	}
	return any
}

// ---- pop boundary -----------------------------------------------------------------------

type dbClause struct {
	stmt string
	args []interface{}
}

type dbQuery struct {
	conn   *pop.Connection
	wheres []dbClause
	order  string
	limit  int
	hasLim bool
	raw    *dbClause
}

var (
	dbQueries = map[*pop.Query]*dbQuery{}
	dbBase    *pop.Connection
)

func dbWithContext(c *pop.Connection, ctx context.Context) *pop.Connection { return c }

func dbConnWhere(c *pop.Connection, stmt string, args ...interface{}) *pop.Query {
	q := &pop.Query{}
	dbQueries[q] = &dbQuery{conn: c, wheres: []dbClause{{stmt, args}}}
	return q
}

func dbConnRawQuery(c *pop.Connection, stmt string, args ...interface{}) *pop.Query {
	q := &pop.Query{}
	dbQueries[q] = &dbQuery{conn: c, raw: &dbClause{stmt, args}}
	return q
}

func dbQueryWhere(q *pop.Query, stmt string, args ...interface{}) *pop.Query {
	dq := dbQueries[q]
	dq.wheres = append(dq.wheres, dbClause{stmt, args})
	return q
}

func dbQueryOrder(q *pop.Query, stmt string, args ...interface{}) *pop.Query {
	dbQueries[q].order = stmt
	return q
}

func dbQueryLimit(q *pop.Query, n int) *pop.Query {
	dq := dbQueries[q]
	dq.limit, dq.hasLim = n, true
	return q
}

type dbTxKey struct{}

func dbGetConnection(ctx context.Context, c *pop.Connection) *pop.Connection {
	if tc, ok := ctx.Value(dbTxKey{}).(*pop.Connection); ok {
		return tc
	}
	return c
}

func dbTransaction(ctx context.Context, c *pop.Connection, f func(context.Context, *pop.Connection) error) error {
	if tc, ok := ctx.Value(dbTxKey{}).(*pop.Connection); ok {
		return f(ctx, tc)
	}
	snapshot := dbCopyRows(db.rows)
	mapSnapshot := append([]dbMapRow(nil), db.maps...)
	tx := &pop.Connection{}
	db.txOpen++
	db.txConn = tx
	err := f(context.WithValue(ctx, dbTxKey{}, tx), tx)
	db.txOpen--
	db.txConn = nil
	if err != nil {
		db.rows = snapshot // rollback
		db.maps = mapSnapshot
	}
	if err != nil && db.retryable && db.failed > 0 && !db.retried {
		// popx.Transaction re-runs the callback after a retryable failure
		// (CockroachDB serialization failure through crdb.ExecuteInTx, SQLite
		// "database is locked" through pop's locker): rolled back, the same
		// callback once more, this time without the fault
		db.retried = true
		db.failAt = 0
		snapshot = dbCopyRows(db.rows)
		mapSnapshot = append([]dbMapRow(nil), db.maps...)
		tx2 := &pop.Connection{}
		db.txOpen++
		db.txConn = tx2
		err = f(context.WithValue(ctx, dbTxKey{}, tx2), tx2)
		db.txOpen--
		db.txConn = nil
		if err != nil {
			db.rows = snapshot
			db.maps = mapSnapshot
		}
	}
	return err
}

func dbHandleError(err error) error { return err }

// begin a terminal operation: fault injection and the transaction monitor.
func (s *dbState) begin(conn *pop.Connection, stmt string, mutating bool) error {
	s.ops++
	if len(s.statements) < 32 {
		s.statements = append(s.statements, stmt)
	}
	if mutating {
		s.mutating++
	}
	if s.txOpen > 0 && conn != s.txConn {
		s.outsideTx++
	}
	if s.failAt != 0 && verifConcretizeBool(verifEq(s.ops, s.failAt)) {
		s.failed++
		return errDB
	}
	return nil
}

// builder conditions as one AND expression over row i
func (s *dbState) builderMatch(dq *dbQuery, i int) bool {
	c := s.rows[i].present
	for _, w := range dq.wheres {
		p := &sqlParser{toks: sqlLex(w.stmt)}
		x := p.cond()
		env := &evalEnv{s: s, row: i, args: w.args}
		c = verifAnd(c, env.eval(x))
	}
	return c
}

func dbQueryExists(q *pop.Query, model interface{}) (bool, error) {
	dq := dbQueries[q]
	if err := db.begin(dq.conn, "EXISTS "+dbDescribe(dq), false); err != nil {
		return false, err
	}
	any := false
	for i := range db.rows {
		any = verifOr(any, db.builderMatch(dq, i))
	}
	return any, nil
}

func dbDescribe(dq *dbQuery) string {
	if dq.raw != nil {
		return dq.raw.stmt
	}
	s := ""
	for i, w := range dq.wheres {
		if i > 0 {
			s += " AND "
		}
		s += w.stmt
	}
	if dq.order != "" {
		s += " ORDER BY " + dq.order
	}
	if dq.hasLim {
		s += " LIMIT n"
	}
	return s
}

func dbQueryAll(q *pop.Query, models interface{}) error {
	dq := dbQueries[q]
	if err := db.begin(dq.conn, "SELECT "+dbDescribe(dq), false); err != nil {
		return err
	}
	if dq.raw != nil {
		return db.rawSelect(dq, models)
	}
	if ms, ok := models.(*[]UUIDMapping); ok {
		return db.selectMappings(dq, ms)
	}
	if dq.order != "" && dq.order != "shard_id" {
		panic("verif db model: unsupported ORDER BY " + dq.order)
	}
	out := models.(*relationTuples)
	n := 0
	for i := range db.rows {
		// (a negative LIMIT means "no limit" in SQLite; MySQL and PostgreSQL reject it)
		if dq.hasLim && !verifConcretizeBool(verifOr(verifLess(dq.limit, 0), verifLess(n, dq.limit))) {
			break
		}
		if verifConcretizeBool(db.builderMatch(dq, i)) {
			*out = append(*out, db.materialise(i))
			n++
		}
	}
	return nil
}

// selectMappings: SELECT * FROM keto_uuid_mappings WHERE id in (?). Rows come
// back in table order, which is unrelated to the order of the ids asked for.
func (s *dbState) selectMappings(dq *dbQuery, out *[]UUIDMapping) error {
	if len(dq.wheres) != 1 || dq.wheres[0].stmt != "id in (?)" || len(dq.wheres[0].args) != 1 || dq.hasLim || dq.order != "" {
		panic("verif db model: unsupported query on keto_uuid_mappings: " + dbDescribe(dq))
	}
	ids := dq.wheres[0].args[0].([]uuid.UUID)
	if len(ids) == 0 {
		// pop renders an empty slice as "in (NULL)"-like text that no row satisfies
		return nil
	}
	for i := range s.maps {
		in := false
		for _, id := range ids {
			if id == s.maps[i].id {
				in = true
			}
		}
		if in && verifConcretizeBool(s.maps[i].present) {
			*out = append(*out, UUIDMapping{ID: s.maps[i].id, StringRepresentation: s.maps[i].str})
		}
	}
	return nil
}

// insertMappings: INSERT INTO keto_uuid_mappings (id, string_representation)
// VALUES (?,?),... ON CONFLICT (id) DO NOTHING  /  INSERT IGNORE (mysql).
func (s *dbState) insertMappings(stmt string, args []interface{}) error {
	ignore := strings.Contains(stmt, "ON CONFLICT (id) DO NOTHING") || strings.HasPrefix(stmt, "INSERT IGNORE")
	if len(args)%2 != 0 || strings.Count(stmt, "(?,?)")*2 != len(args) {
		panic("verif db model: keto_uuid_mappings INSERT whose placeholders and arguments do not match")
	}
	for g := 0; g < len(args); g += 2 {
		id := args[g].(uuid.UUID)
		str := args[g+1].(string)
		dup := false
		for i := range s.maps {
			if s.maps[i].id == id && verifConcretizeBool(s.maps[i].present) {
				dup = true
			}
		}
		if dup {
			if !ignore {
				return errors.New("verif db model: UNIQUE constraint failed: keto_uuid_mappings.id")
			}
			continue
		}
		s.maps = append(s.maps, dbMapRow{present: true, id: id, str: str})
	}
	return nil
}

// rawSelect: the traversal query (SELECT ... EXISTS(...) AS found FROM t AS current ...).
func (s *dbState) rawSelect(dq *dbQuery, models interface{}) error {
	p := &sqlParser{toks: sqlLex(dq.raw.stmt)}
	sel := p.selectStmt()
	out := models.(*[]*subjectExpandedRelationTupleRow)
	limit := -1
	if sel.limitArg >= 0 {
		limit = dq.raw.args[sel.limitArg].(int)
	}
	n := 0
	for i := range s.rows {
		if limit >= 0 && n >= limit {
			break
		}
		env := &evalEnv{s: s, row: i, alias: map[string]int{}, args: dq.raw.args}
		if sel.alias != "" {
			env.alias[sel.alias] = i
		}
		c := s.rows[i].present
		if sel.where != nil {
			c = verifAnd(c, env.eval(sel.where))
		}
		if !verifConcretizeBool(c) {
			continue
		}
		full := s.materialise(i)
		row := &subjectExpandedRelationTupleRow{}
		for _, it := range sel.items {
			switch it.as {
			case "shard_id":
				row.ID = s.scanUUID(env, it.expr, full)
			case "namespace":
				row.Namespace = s.scanString(env, it.expr, full)
			case "object":
				row.Object = s.scanUUID(env, it.expr, full)
			case "relation":
				row.Relation = s.scanString(env, it.expr, full)
			case "found":
				row.Found = verifConcretizeBool(env.eval(it.expr))
			default:
				panic("verif db model: unexpected select item " + it.as)
			}
		}
		*out = append(*out, row)
		n++
	}
	return nil
}

func (s *dbState) scanUUID(env *evalEnv, x *sqlExpr, full *RelationTuple) uuid.UUID {
	col := x.col
	if k := strings.IndexByte(col, '.'); k >= 0 {
		col = col[k+1:]
	}
	switch col {
	case "shard_id":
		return full.ID
	case "object":
		return full.Object
	case "subject_set_object":
		return full.SubjectSetObject.UUID
	case "subject_id":
		return full.SubjectID.UUID
	}
	panic("verif db model: cannot scan column " + col + " as uuid")
}

func (s *dbState) scanString(env *evalEnv, x *sqlExpr, full *RelationTuple) string {
	col := x.col
	if k := strings.IndexByte(col, '.'); k >= 0 {
		col = col[k+1:]
	}
	switch col {
	case "namespace":
		return full.Namespace
	case "relation":
		return full.Relation
	case "subject_set_namespace":
		return full.SubjectSetNamespace.String
	case "subject_set_relation":
		return full.SubjectSetRelation.String
	}
	panic("verif db model: cannot scan column " + col + " as string")
}

func dbQueryDelete(q *pop.Query, model interface{}) error {
	dq := dbQueries[q]
	if err := db.begin(dq.conn, "DELETE "+dbDescribe(dq), true); err != nil {
		return err
	}
	for i := range db.rows {
		db.rows[i].present = verifAnd(db.rows[i].present, verifNot(db.builderMatch(dq, i)))
	}
	return nil
}

// inserted records where the rows of INSERT statements were placed (ghost
// information for the specification side).
var dbInserted []int

func dbQueryExec(q *pop.Query) error {
	dq := dbQueries[q]
	if dq.raw == nil {
		panic("verif db model: Exec on a builder query")
	}
	stmt := dq.raw.stmt
	if err := db.begin(dq.conn, stmt, true); err != nil {
		return err
	}
	toks := sqlLex(stmt)
	if strings.Contains(stmt, "INTO keto_uuid_mappings") {
		return db.insertMappings(stmt, dq.raw.args)
	}
	switch {
	case strings.EqualFold(toks[0].text, "INSERT"):
		// INSERT INTO t (c1, ..., c10) VALUES (?, ...), ...
		args := dq.raw.args
		if len(args)%10 != 0 {
			panic("verif db model: INSERT with a number of arguments that is not a multiple of 10")
		}
		cols := []string{}
		k := 3
		if toks[k].text != "(" {
			panic("verif db model: malformed INSERT")
		}
		for k++; toks[k].text != ")"; k++ {
			if toks[k].kind == "ident" {
				cols = append(cols, toks[k].text)
			}
		}
		for g := 0; g < len(args); g += 10 {
			row := dbRow{present: true}
			for c, name := range cols {
				a := args[g+c]
				switch name {
				case "nid":
					row.nid, _, _ = argVal(a, "nid")
				case "namespace":
					row.ns, _, _ = argVal(a, "ns")
				case "object":
					row.obj, _, _ = argVal(a, "obj")
				case "relation":
					row.rel, _, _ = argVal(a, "rel")
				case "subject_id":
					i, null, _ := argVal(a, "obj")
					row.sid = i
					if null {
						row.isSet = true
					}
				case "subject_set_namespace":
					row.sns, _, _ = argVal(a, "ns")
				case "subject_set_object":
					row.sobj, _, _ = argVal(a, "obj")
				case "subject_set_relation":
					row.srel, _, _ = argVal(a, "rel")
				}
			}
			db.place(row)
		}
		return nil
	case strings.EqualFold(toks[0].text, "DELETE"):
		// DELETE FROM t WHERE cond
		p := &sqlParser{toks: toks, pos: 3}
		p.expectKw("WHERE")
		x := p.cond()
		for i := range db.rows {
			env := &evalEnv{s: db, row: i, args: dq.raw.args}
			db.rows[i].present = verifAnd(db.rows[i].present, verifNot(env.eval(x)))
		}
		return nil
	}
	panic("verif db model: unsupported statement " + stmt)
}

// place puts an inserted row into a free slot: which one is a fork (a new
// random shard id lands anywhere in the order); when the slots do not suffice
// the row is appended (only concrete-content runs do that).
func (s *dbState) place(row dbRow) {
	var free []int
	for i := range s.rows {
		if !verifConcretizeBool(s.rows[i].present) {
			free = append(free, i)
		}
	}
	if len(free) == 0 {
		s.rows = append(s.rows, row)
		dbInserted = append(dbInserted, len(s.rows)-1)
		return
	}
	k := free[verifChoice(len(free))]
	s.rows[k] = row
	dbInserted = append(dbInserted, k)
}

// ---- dependencies of the real Persister ----------------------------------------------------

type dbDeps struct {
	log *logrusx.Logger
	tr  *otelx.Tracer
	cfg *config.Config
}

func (d *dbDeps) Logger() *logrusx.Logger                        { return d.log }
func (d *dbDeps) Tracer(context.Context) *otelx.Tracer           { return d.tr }
func (d *dbDeps) Contextualizer() ketoctx.Contextualizer         { return &dbCtxer{} }
func (d *dbDeps) Config(context.Context) *config.Config          { return d.cfg }
func (d *dbDeps) PopConnection(context.Context) (*pop.Connection, error) { return dbBase, nil }

// dbCtxer: a contextualizer that takes the network from the request context
// when the context names one (multi-tenant deployments), else the fallback.
type dbCtxer struct{}
type dbNetKey struct{}

func (*dbCtxer) Network(ctx context.Context, fallback uuid.UUID) uuid.UUID {
	if n, ok := ctx.Value(dbNetKey{}).(uuid.UUID); ok {
		return n
	}
	return fallback
}

func (*dbCtxer) Config(_ context.Context, c *configx.Provider) *configx.Provider { return c }

// dbCtx is the request context of the harnesses. With the parameter ctxNet = 1
// the persister is created for the *other* network and the caller's network
// (0) comes from the context, so every specification stays as it is.
func dbCtx() context.Context {
	if verifParamOr("ctxNet", 0) == 1 {
		return context.WithValue(context.Background(), dbNetKey{}, dbNID(0))
	}
	return context.Background()
}

// newModelPersister: a real Persister for network nid over the model database.
func newModelPersister(nid int) *Persister {
	if verifParamOr("ctxNet", 0) == 1 {
		nid = 1 - nid
	}
	if dbBase == nil {
		dbBase = &pop.Connection{}
	}
	d := &dbDeps{log: &logrusx.Logger{}, tr: &otelx.Tracer{}, cfg: &config.Config{}}
	return &Persister{conn: dbBase, d: d, nid: dbNID(nid)}
}


// dbQueryAllSummary replaces (*pop.Query).All in the large-table run only: the
// subject-set expansion query is answered from its arguments by direct
// comparisons instead of evaluating its SQL text row pair by row pair (the text
// is checked on small symbolic tables by Lemma P; this run is about the Go
// loop that pages through the result). Rows and arguments are concrete here.
func dbQueryAllSummary(q *pop.Query, models interface{}) error {
	dq := dbQueries[q]
	out, ok := models.(*[]*subjectExpandedRelationTupleRow)
	if dq.raw == nil || !ok || !strings.Contains(dq.raw.stmt, "AS found") {
		return dbQueryAll(q, models)
	}
	if err := db.begin(dq.conn, "SELECT (summarised subject-set expansion)", false); err != nil {
		return err
	}
	a := dq.raw.args
	n := len(a)
	limit := a[n-1].(int)
	rel, _, _ := argVal(a[n-2], "rel")
	obj, _, _ := argVal(a[n-3], "obj")
	ns, _, _ := argVal(a[n-4], "ns")
	after := dbShardIndex(a[n-5].(uuid.UUID))
	nid, _, _ := argVal(a[n-6], "nid")
	if n != 7 {
		panic("verif db model: the summarised expansion query expects a subject-id subject (one subject argument)")
	}
	sid, _, _ := argVal(a[0], "obj")
	got := 0
	for i := after + 1; i < len(db.rows) && got < limit; i++ {
		r := db.rows[i]
		if !(r.present && r.nid == nid && r.ns == ns && r.obj == obj && r.rel == rel && r.isSet) {
			continue
		}
		found := false
		for j := range db.rows {
			o := db.rows[j]
			if o.present && o.nid == r.nid && o.ns == r.sns && o.obj == r.sobj && o.rel == r.srel && !o.isSet && o.sid == sid {
				found = true
				break
			}
		}
		row := &subjectExpandedRelationTupleRow{Found: found}
		row.ID = dbShard(i)
		row.Namespace = dbNSName(r.sns)
		row.Object = dbObj(r.sobj)
		row.Relation = dbSetRelName(r.srel)
		*out = append(*out, row)
		got++
	}
	return nil
}
