//go:build verif

package sql

// C04 / C05 / C06 / C07 harnesses on the database model.

import (
	"context"

	"github.com/gobuffalo/pop/v6"
	"github.com/gofrs/uuid"

	"github.com/ory/keto/internal/relationtuple"
	"github.com/ory/keto/internal/x"
)

// ---- concrete tuples and queries chosen by forking ----------------------------------

type apiSub struct {
	isSet bool
	sid   int
	sns   int
	sobj  int
	srel  int
}

type apiTuple struct {
	ns, obj, rel int
	sub          apiSub
}

// pickTuple: all names symbolic (indices into the pools), only the subject
// kind is chosen by forking.
func pickTuple(small bool) apiTuple {
	t := apiTuple{ns: verifIntRange(0, len(dbNS)-1), obj: verifIntRange(0, dbObjs-1), rel: verifIntRange(0, len(dbRels)-1)}
	if verifChoice(2) == 0 {
		t.sub = apiSub{sid: verifIntRange(0, dbObjs-1)}
	} else {
		t.sub = apiSub{isSet: true, sns: verifIntRange(0, len(dbNS)-1), sobj: verifIntRange(0, dbObjs-1), srel: verifIntRange(0, len(dbRels)-1)}
	}
	return t
}

func (s apiSub) value() relationtuple.Subject {
	if s.isSet {
		return &relationtuple.SubjectSet{Namespace: dbNSName(s.sns), Object: dbObj(s.sobj), Relation: dbRelName(s.srel)}
	}
	return &relationtuple.SubjectID{ID: dbObj(s.sid)}
}

func (t apiTuple) value() *relationtuple.RelationTuple {
	return &relationtuple.RelationTuple{Namespace: dbNSName(t.ns), Object: dbObj(t.obj), Relation: dbRelName(t.rel), Subject: t.sub.value()}
}

type apiQuery struct {
	hasNS, hasObj, hasRel, hasSub bool
	t                             apiTuple
}

func pickQuery(small bool) apiQuery {
	q := apiQuery{hasNS: verifChoice(2) == 1, hasObj: verifChoice(2) == 1, hasRel: verifChoice(2) == 1, hasSub: verifChoice(2) == 1}
	q.t = pickTuple(small)
	return q
}

func (q apiQuery) value() *relationtuple.RelationQuery {
	out := &relationtuple.RelationQuery{}
	if q.hasNS {
		s := dbNSName(q.t.ns)
		out.Namespace = &s
	}
	if q.hasObj {
		o := dbObj(q.t.obj)
		out.Object = &o
	}
	if q.hasRel {
		s := dbRelName(q.t.rel)
		out.Relation = &s
	}
	if q.hasSub {
		out.Subject = q.t.sub.value()
	}
	return out
}

// ---- specification side: formulas over a row -----------------------------------------------

func rowSubjectIs(r dbRow, s apiSub) bool {
	if s.isSet {
		return verifAnd(r.isSet, verifAnd(verifEq(r.sns, s.sns), verifAnd(verifEq(r.sobj, s.sobj), verifEq(r.srel, s.srel))))
	}
	return verifAnd(verifNot(r.isSet), verifEq(r.sid, s.sid))
}

func rowIsTuple(r dbRow, t apiTuple) bool {
	return verifAnd(verifAnd(verifEq(r.ns, t.ns), verifEq(r.obj, t.obj)), verifAnd(verifEq(r.rel, t.rel), rowSubjectIs(r, t.sub)))
}

func rowMatches(r dbRow, q apiQuery) bool {
	c := true
	if q.hasNS {
		c = verifAnd(c, verifEq(r.ns, q.t.ns))
	}
	if q.hasObj {
		c = verifAnd(c, verifEq(r.obj, q.t.obj))
	}
	if q.hasRel {
		c = verifAnd(c, verifEq(r.rel, q.t.rel))
	}
	if q.hasSub {
		c = verifAnd(c, rowSubjectIs(r, q.t.sub))
	}
	return c
}

func tupleOfInternal(t *relationtuple.RelationTuple) apiTuple {
	out := apiTuple{ns: nsIndexOf(t.Namespace), obj: dbObjIndex(t.Object), rel: relIndexOf(t.Relation)}
	switch s := t.Subject.(type) {
	case *relationtuple.SubjectID:
		out.sub = apiSub{sid: dbObjIndex(s.ID)}
	case *relationtuple.SubjectSet:
		out.sub = apiSub{isSet: true, sns: nsIndexOf(s.Namespace), sobj: dbObjIndex(s.Object), srel: relIndexOf(s.Relation)}
	}
	return out
}

func b2i(b bool) int { return verifIte(b, 1, 0) }

func tupleEq(a, b apiTuple) bool {
	if a.sub.isSet != b.sub.isSet {
		return false
	}
	c := verifAnd(verifEq(a.ns, b.ns), verifAnd(verifEq(a.obj, b.obj), verifEq(a.rel, b.rel)))
	if a.sub.isSet {
		return verifAnd(c, verifAnd(verifEq(a.sub.sns, b.sub.sns), verifAnd(verifEq(a.sub.sobj, b.sub.sobj), verifEq(a.sub.srel, b.sub.srel))))
	}
	return verifAnd(c, verifEq(a.sub.sid, b.sub.sid))
}

// listAll pages through GetRelationTuples until the token is empty.
func listAll(ctx context.Context, p *Persister, q *relationtuple.RelationQuery, size int, maxPages int) ([]*relationtuple.RelationTuple, bool) {
	var all []*relationtuple.RelationTuple
	token := ""
	for page := 0; page < maxPages; page++ {
		opts := []x.PaginationOptionSetter{x.WithToken(token)}
		if size != 0 {
			opts = append(opts, x.WithSize(size))
		}
		res, next, err := p.GetRelationTuples(ctx, q, opts...)
		if err != nil {
			verifFail("C04: GetRelationTuples fails: " + err.Error())
			return nil, false
		}
		all = append(all, res...)
		if next == "" {
			return all, true
		}
		token = next
	}
	return all, false
}

// specState is the multiset model: which slots hold a relationship of network
// nid after the operation.
type specSlot struct {
	present bool
	row     dbRow
}

// HarnessC04: one write operation from an arbitrary table, then a listing with
// an arbitrary query, compared with the multiset model. Network isolation
// (C06) is asserted on the way: rows of the other network are untouched and
// never listed.
func HarnessC04() {
	K := verifParam("K")
	small := verifParam("small") == 1
	db = &dbState{rows: dbSymRows(K)}
	dbInserted = nil
	dbQueries = map[*pop.Query]*dbQuery{}
	pre := dbCopyRows(db.rows)
	p := newModelPersister(0)
	ctx := context.Background()

	var ins, del []apiTuple
	var delQ *apiQuery
	op := verifChoice(4)
	var err error
	switch op {
	case 0:
		n := verifChoice(2) + 1
		var ts []*relationtuple.RelationTuple
		for i := 0; i < n; i++ {
			t := pickTuple(small)
			ins = append(ins, t)
			ts = append(ts, t.value())
		}
		verifTag("create")
		err = p.WriteRelationTuples(ctx, ts...)
	case 1:
		n := verifChoice(2) + 1
		var ts []*relationtuple.RelationTuple
		for i := 0; i < n; i++ {
			t := pickTuple(small)
			del = append(del, t)
			ts = append(ts, t.value())
		}
		verifTag("delete")
		err = p.DeleteRelationTuples(ctx, ts...)
	case 2:
		q := pickQuery(small)
		delQ = &q
		verifTag("delete-by-query")
		err = p.DeleteAllRelationTuples(ctx, q.value())
	default:
		i, d := pickTuple(small), pickTuple(small)
		ins, del = []apiTuple{i}, []apiTuple{d}
		verifTag("transact")
		err = p.TransactRelationTuples(ctx, []*relationtuple.RelationTuple{i.value()}, []*relationtuple.RelationTuple{d.value()})
	}
	if err != nil {
		verifFail("C04: a valid write operation fails: " + err.Error())
		return
	}
	verifReach("c04.written")
	verifAssert(db.outsideTx == 0, "C05: a statement of a write operation was issued outside the open transaction")

	// ---- the specification: slot-wise expected state
	if len(dbInserted) != len(ins) {
		verifFail("C04: the number of inserted rows differs from the number of relationships written")
		return
	}
	spec := make([]specSlot, len(db.rows))
	insertedAt := map[int]int{}
	for j, s := range dbInserted {
		insertedAt[s] = j
	}
	deleted := func(r dbRow) bool {
		d := false
		for _, t := range del {
			d = verifOr(d, rowIsTuple(r, t))
		}
		if delQ != nil {
			d = verifOr(d, rowMatches(r, *delQ))
		}
		return d
	}
	for s := range db.rows {
		if j, ok := insertedAt[s]; ok {
			t := ins[j]
			r := dbRow{present: true, nid: 0, ns: t.ns, obj: t.obj, rel: t.rel, isSet: t.sub.isSet, sid: t.sub.sid, sns: t.sub.sns, sobj: t.sub.sobj, srel: t.sub.srel}
			r.present = verifNot(deleted(r))
			spec[s] = specSlot{present: r.present, row: r}
			continue
		}
		r := pre[s]
		mine := verifEq(r.nid, 0)
		spec[s] = specSlot{present: verifAnd(r.present, verifNot(verifAnd(mine, deleted(r)))), row: r}
	}
	// model state == specification, slot by slot
	for s := range db.rows {
		got := db.rows[s]
		verifAssert(bothOrNeitherB(got.present, spec[s].present), "C04: the stored state after the operation differs from the multiset model (a relationship is missing, left over, or another network's row was touched)")
		if _, ok := insertedAt[s]; ok {
			verifAssert(verifOr(verifNot(got.present), rowIsTuple(got, ins[insertedAt[s]])), "C04: an inserted row does not hold the strings it was written with")
			verifAssert(verifEq(got.nid, 0), "C06: a relationship was written under another network id")
		} else {
			// C06: rows of network B are untouched
			verifAssert(verifOr(verifEq(pre[s].nid, 0), bothOrNeitherB(got.present, pre[s].present)), "C06: an operation in network A changed a row of network B")
		}
	}

	// ---- List(Q) through the real code == {t in spec | t matches Q} as multisets
	q := pickQuery(small)
	listed, done := listAll(ctx, p, q.value(), 0, len(db.rows)+2)
	if !done {
		verifFail("C07: pagination does not end")
		return
	}
	verifReach("c04.listed")
	want := 0
	for s := range spec {
		want = want + b2i(verifAnd(spec[s].present, verifAnd(verifEq(spec[s].row.nid, 0), rowMatches(spec[s].row, q))))
	}
	verifAssert(verifEq(want, len(listed)), "C04: listing returns a different number of relationships than the model predicts")
	for _, lt := range listed {
		t := tupleOfInternal(lt)
		have := 0
		for _, o := range listed {
			have = have + b2i(tupleEq(tupleOfInternal(o), t))
		}
		cnt := 0
		for s := range spec {
			cnt = cnt + b2i(verifAnd(spec[s].present, verifAnd(verifEq(spec[s].row.nid, 0), rowIsTuple(spec[s].row, t))))
		}
		verifAssert(verifEq(cnt, have), "C04: a listed relationship has a different multiplicity than in the model")
		tq := dbRow{ns: t.ns, obj: t.obj, rel: t.rel, isSet: t.sub.isSet, sid: t.sub.sid, sns: t.sub.sns, sobj: t.sub.sobj, srel: t.sub.srel}
		verifAssert(rowMatches(tq, q), "C04: a listed relationship does not match the query")
	}
	// Exists agrees with the listing
	ex, err := p.ExistsRelationTuples(ctx, q.value())
	if err != nil {
		verifFail("C04: ExistsRelationTuples fails")
		return
	}
	verifAssert(bothOrNeitherB(ex, len(listed) > 0), "C04: ExistsRelationTuples disagrees with the listing")
	verifAssert(db.mutating == dbMutatingAfterWrite(op, len(ins), len(del)), "C17: a read operation of the persister issued a mutating statement")
}

func dbMutatingAfterWrite(op, nIns, nDel int) int {
	switch op {
	case 0, 1, 2:
		return 1
	}
	return 2
}

func bothOrNeitherB(a, b bool) bool {
	return verifOr(verifAnd(a, b), verifAnd(verifNot(a), verifNot(b)))
}

var _ = uuid.Nil
