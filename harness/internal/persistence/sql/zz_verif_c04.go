//go:build verif

package sql

// C04 / C05 / C06 / C07 harnesses on the database model.

import (
	"context"
	"strconv"

	"github.com/gobuffalo/pop/v6"
	"github.com/gofrs/uuid"

	"github.com/ory/keto/internal/driver/config"
	"github.com/ory/keto/internal/namespace"
	"github.com/ory/keto/internal/namespace/ast"

	"github.com/ory/keto/internal/relationtuple"
	"github.com/ory/keto/internal/x"
)

// ---- concrete tuples and queries chosen by forking ----------------------------------

type apiSub struct {
	isSet bool
	sid   int
	sns   int
	sobj  int
	srel  int
}

type apiTuple struct {
	ns, obj, rel int
	sub          apiSub
}

// pickTuple: all names symbolic (indices into the pools), only the subject
// kind is chosen by forking.
func pickTuple(small bool) apiTuple {
	t := apiTuple{ns: verifIntRange(0, len(dbNS)-1), obj: verifIntRange(0, dbObjs-1), rel: verifIntRange(0, len(dbRels)-1)}
	if verifChoice(2) == 0 {
		t.sub = apiSub{sid: verifIntRange(0, dbObjs-1)}
	} else {
		t.sub = apiSub{isSet: true, sns: verifIntRange(0, len(dbNS)-1), sobj: verifIntRange(0, dbObjs-1), srel: verifIntRange(0, len(dbRels)-1)}
		if verifParamOr("emptyRel", 0) == 1 && verifChoice(2) == 1 {
			// the subject set "ns:obj#" (empty relation)
			t.sub.srel = dbRelEmpty
		}
	}
	return t
}

func (s apiSub) value() relationtuple.Subject {
	if s.isSet {
		return &relationtuple.SubjectSet{Namespace: dbNSName(s.sns), Object: dbObj(s.sobj), Relation: dbSetRelName(s.srel)}
	}
	return &relationtuple.SubjectID{ID: dbObj(s.sid)}
}

func (t apiTuple) value() *relationtuple.RelationTuple {
	return &relationtuple.RelationTuple{Namespace: dbNSName(t.ns), Object: dbObj(t.obj), Relation: dbRelName(t.rel), Subject: t.sub.value()}
}

type apiQuery struct {
	hasNS, hasObj, hasRel, hasSub bool
	t                             apiTuple
}

func pickQuery(small bool) apiQuery {
	q := apiQuery{hasNS: verifChoice(2) == 1, hasObj: verifChoice(2) == 1, hasRel: verifChoice(2) == 1, hasSub: verifChoice(2) == 1}
	q.t = pickTuple(small)
	return q
}

func (q apiQuery) value() *relationtuple.RelationQuery {
	out := &relationtuple.RelationQuery{}
	if q.hasNS {
		s := dbNSName(q.t.ns)
		out.Namespace = &s
	}
	if q.hasObj {
		o := dbObj(q.t.obj)
		out.Object = &o
	}
	if q.hasRel {
		s := dbRelName(q.t.rel)
		out.Relation = &s
	}
	if q.hasSub {
		out.Subject = q.t.sub.value()
	}
	return out
}

// ---- specification side: formulas over a row -----------------------------------------------

func rowSubjectIs(r dbRow, s apiSub) bool {
	if s.isSet {
		return verifAnd(r.isSet, verifAnd(verifEq(r.sns, s.sns), verifAnd(verifEq(r.sobj, s.sobj), verifEq(r.srel, s.srel))))
	}
	return verifAnd(verifNot(r.isSet), verifEq(r.sid, s.sid))
}

func rowIsTuple(r dbRow, t apiTuple) bool {
	return verifAnd(verifAnd(verifEq(r.ns, t.ns), verifEq(r.obj, t.obj)), verifAnd(verifEq(r.rel, t.rel), rowSubjectIs(r, t.sub)))
}

func rowMatches(r dbRow, q apiQuery) bool {
	c := true
	if q.hasNS {
		c = verifAnd(c, verifEq(r.ns, q.t.ns))
	}
	if q.hasObj {
		c = verifAnd(c, verifEq(r.obj, q.t.obj))
	}
	if q.hasRel {
		c = verifAnd(c, verifEq(r.rel, q.t.rel))
	}
	if q.hasSub {
		c = verifAnd(c, rowSubjectIs(r, q.t.sub))
	}
	return c
}

func tupleOfInternal(t *relationtuple.RelationTuple) apiTuple {
	out := apiTuple{ns: nsIndexOf(t.Namespace), obj: dbObjIndex(t.Object), rel: relIndexOf(t.Relation)}
	switch s := t.Subject.(type) {
	case *relationtuple.SubjectID:
		out.sub = apiSub{sid: dbObjIndex(s.ID)}
	case *relationtuple.SubjectSet:
		out.sub = apiSub{isSet: true, sns: nsIndexOf(s.Namespace), sobj: dbObjIndex(s.Object), srel: relIndexOf(s.Relation)}
	}
	return out
}

func b2i(b bool) int { return verifIte(b, 1, 0) }

func tupleEq(a, b apiTuple) bool {
	if a.sub.isSet != b.sub.isSet {
		return false
	}
	c := verifAnd(verifEq(a.ns, b.ns), verifAnd(verifEq(a.obj, b.obj), verifEq(a.rel, b.rel)))
	if a.sub.isSet {
		return verifAnd(c, verifAnd(verifEq(a.sub.sns, b.sub.sns), verifAnd(verifEq(a.sub.sobj, b.sub.sobj), verifEq(a.sub.srel, b.sub.srel))))
	}
	return verifAnd(c, verifEq(a.sub.sid, b.sub.sid))
}

// listAll pages through GetRelationTuples until the token is empty.
func listAll(ctx context.Context, p *Persister, q *relationtuple.RelationQuery, size int, maxPages int) ([]*relationtuple.RelationTuple, bool) {
	var all []*relationtuple.RelationTuple
	token := ""
	for page := 0; page < maxPages; page++ {
		opts := []x.PaginationOptionSetter{x.WithToken(token)}
		if size != 0 {
			opts = append(opts, x.WithSize(size))
		}
		res, next, err := p.GetRelationTuples(ctx, q, opts...)
		if err != nil {
			verifFail("C04: GetRelationTuples fails: " + err.Error())
			return nil, false
		}
		all = append(all, res...)
		if next == "" {
			return all, true
		}
		token = next
	}
	return all, false
}

// specState is the multiset model: which slots hold a relationship of network
// nid after the operation.
type specSlot struct {
	present bool
	row     dbRow
}

// HarnessC04: one write operation from an arbitrary table, then a listing with
// an arbitrary query, compared with the multiset model. Network isolation
// (C06) is asserted on the way: rows of the other network are untouched and
// never listed.
func HarnessC04() {
	K := verifParam("K")
	small := verifParam("small") == 1
	db = &dbState{rows: dbSymRows(K)}
	dbInserted = nil
	dbQueries = map[*pop.Query]*dbQuery{}
	pre := dbCopyRows(db.rows)
	p := newModelPersister(0)
	ctx := dbCtx()

	var ins, del []apiTuple
	var delQ *apiQuery
	op := verifChoice(4)
	var err error
	switch op {
	case 0:
		n := verifChoice(2) + 1
		var ts []*relationtuple.RelationTuple
		for i := 0; i < n; i++ {
			t := pickTuple(small)
			ins = append(ins, t)
			ts = append(ts, t.value())
		}
		verifTag("create")
		err = p.WriteRelationTuples(ctx, ts...)
	case 1:
		n := verifChoice(2) + 1
		var ts []*relationtuple.RelationTuple
		for i := 0; i < n; i++ {
			t := pickTuple(small)
			del = append(del, t)
			ts = append(ts, t.value())
		}
		verifTag("delete")
		err = p.DeleteRelationTuples(ctx, ts...)
	case 2:
		q := pickQuery(small)
		delQ = &q
		verifTag("delete-by-query")
		err = p.DeleteAllRelationTuples(ctx, q.value())
	default:
		i, d := pickTuple(small), pickTuple(small)
		ins, del = []apiTuple{i}, []apiTuple{d}
		verifTag("transact")
		err = p.TransactRelationTuples(ctx, []*relationtuple.RelationTuple{i.value()}, []*relationtuple.RelationTuple{d.value()})
	}
	if err != nil {
		verifFail("C04: a valid write operation fails: " + err.Error())
		return
	}
	verifReach("c04.written")
	verifAssert(db.outsideTx == 0, "C05: a statement of a write operation was issued outside the open transaction")

	// ---- the specification: slot-wise expected state
	if len(dbInserted) != len(ins) {
		verifFail("C04: the number of inserted rows differs from the number of relationships written")
		return
	}
	spec := make([]specSlot, len(db.rows))
	insertedAt := map[int]int{}
	for j, s := range dbInserted {
		insertedAt[s] = j
	}
	deleted := func(r dbRow) bool {
		d := false
		for _, t := range del {
			d = verifOr(d, rowIsTuple(r, t))
		}
		if delQ != nil {
			d = verifOr(d, rowMatches(r, *delQ))
		}
		return d
	}
	for s := range db.rows {
		if j, ok := insertedAt[s]; ok {
			t := ins[j]
			r := dbRow{present: true, nid: 0, ns: t.ns, obj: t.obj, rel: t.rel, isSet: t.sub.isSet, sid: t.sub.sid, sns: t.sub.sns, sobj: t.sub.sobj, srel: t.sub.srel}
			r.present = verifNot(deleted(r))
			spec[s] = specSlot{present: r.present, row: r}
			continue
		}
		r := pre[s]
		mine := verifEq(r.nid, 0)
		spec[s] = specSlot{present: verifAnd(r.present, verifNot(verifAnd(mine, deleted(r)))), row: r}
	}
	// model state == specification, slot by slot
	for s := range db.rows {
		got := db.rows[s]
		verifAssert(bothOrNeitherB(got.present, spec[s].present), "C04: the stored state after the operation differs from the multiset model (a relationship is missing, left over, or another network's row was touched)")
		if _, ok := insertedAt[s]; ok {
			verifAssert(verifOr(verifNot(got.present), rowIsTuple(got, ins[insertedAt[s]])), "C04: an inserted row does not hold the strings it was written with")
			verifAssert(verifEq(got.nid, 0), "C06: a relationship was written under another network id")
		} else {
			// C06: rows of network B are untouched
			verifAssert(verifOr(verifEq(pre[s].nid, 0), bothOrNeitherB(got.present, pre[s].present)), "C06: an operation in network A changed a row of network B")
		}
	}

	// ---- List(Q) through the real code == {t in spec | t matches Q} as multisets
	q := pickQuery(small)
	listed, done := listAll(ctx, p, q.value(), 0, len(db.rows)+2)
	if !done {
		verifFail("C07: pagination does not end")
		return
	}
	verifReach("c04.listed")
	want := 0
	for s := range spec {
		want = want + b2i(verifAnd(spec[s].present, verifAnd(verifEq(spec[s].row.nid, 0), rowMatches(spec[s].row, q))))
	}
	verifAssert(verifEq(want, len(listed)), "C04: listing returns a different number of relationships than the model predicts")
	for _, lt := range listed {
		t := tupleOfInternal(lt)
		have := 0
		for _, o := range listed {
			have = have + b2i(tupleEq(tupleOfInternal(o), t))
		}
		cnt := 0
		for s := range spec {
			cnt = cnt + b2i(verifAnd(spec[s].present, verifAnd(verifEq(spec[s].row.nid, 0), rowIsTuple(spec[s].row, t))))
		}
		verifAssert(verifEq(cnt, have), "C04: a listed relationship has a different multiplicity than in the model")
		tq := dbRow{ns: t.ns, obj: t.obj, rel: t.rel, isSet: t.sub.isSet, sid: t.sub.sid, sns: t.sub.sns, sobj: t.sub.sobj, srel: t.sub.srel}
		verifAssert(rowMatches(tq, q), "C04: a listed relationship does not match the query")
	}
	// Exists agrees with the listing
	ex, err := p.ExistsRelationTuples(ctx, q.value())
	if err != nil {
		verifFail("C04: ExistsRelationTuples fails")
		return
	}
	verifAssert(bothOrNeitherB(ex, len(listed) > 0), "C04: ExistsRelationTuples disagrees with the listing")
	verifAssert(db.mutating == dbMutatingAfterWrite(op, len(ins), len(del)), "C17: a read operation of the persister issued a mutating statement")
}

func dbMutatingAfterWrite(op, nIns, nDel int) int {
	switch op {
	case 0, 1, 2:
		return 1
	}
	return 2
}

func bothOrNeitherB(a, b bool) bool {
	return verifOr(verifAnd(a, b), verifAnd(verifNot(a), verifNot(b)))
}

var _ = uuid.Nil

// ---------------------------------------------------------------------------------------
// C07: pagination returns every matching relationship exactly once

// HarnessC07: arbitrary table, symbolic query shape and page size, one
// interleaved write between two page fetches.
func HarnessC07() {
	K := verifParam("K")
	db = &dbState{rows: dbSymRows(K)}
	dbInserted = nil
	dbQueries = map[*pop.Query]*dbQuery{}
	pre := dbCopyRows(db.rows)
	p := newModelPersister(0)
	ctx := dbCtx()
	q := pickQuery(false)
	size := verifIntRange(0, K+1)
	eff := verifIte(verifEq(size, 0), 100, size)

	// the interleaved write: none | insert an arbitrary relationship | delete slot d
	kind := verifChoice(3)
	after := verifChoice(2) // after page 1 or page 2
	var insT apiTuple
	delSlot := -1
	if kind == 1 {
		insT = pickTuple(false)
	} else if kind == 2 {
		delSlot = verifChoice(K)
	}

	var all []*relationtuple.RelationTuple
	token := ""
	pages := 0
	ended := false
	for pages < K+3 {
		res, next, err := p.GetRelationTuples(ctx, q.value(), x.WithToken(token), x.WithSize(size))
		if err != nil {
			verifFail("C07: GetRelationTuples fails on a token it handed out: " + err.Error())
			return
		}
		pages++
		verifAssert(verifNot(verifLess(eff, len(res))), "C07: a page holds more than page_size relationships")
		all = append(all, res...)
		if next == "" {
			ended = true
			break
		}
		verifAssert(len(res) > 0, "C07: an empty page carries a next-page token")
		token = next
		if pages == after+1 {
			switch kind {
			case 1:
				if err := p.WriteRelationTuples(ctx, insT.value()); err != nil {
					verifFail("C07: interleaved write fails")
					return
				}
			case 2:
				// another client deletes the row in slot d (directly in the model)
				db.rows[delSlot].present = false
			}
		}
	}
	verifReach("c07.iterated")
	verifAssert(ended, "C07: following next_page_token does not end")
	if !ended {
		return
	}
	// stable rows: matching rows of network A present for the whole iteration
	stable := func(s int) bool {
		if s == delSlot {
			return false
		}
		return verifAnd(pre[s].present, verifAnd(verifEq(pre[s].nid, 0), rowMatches(pre[s], q)))
	}
	unstable := func(s int) bool {
		if s == delSlot {
			return verifAnd(pre[s].present, verifAnd(verifEq(pre[s].nid, 0), rowMatches(pre[s], q)))
		}
		return false
	}
	nStable, nUnstable := 0, 0
	for s := 0; s < K; s++ {
		nStable = nStable + b2i(stable(s))
		nUnstable = nUnstable + b2i(unstable(s))
	}
	if kind == 1 {
		nUnstable = nUnstable + 1
	}
	n := len(all)
	verifAssert(verifNot(verifLess(n, nStable)), "C07: a relationship that existed for the whole iteration is missing from the pages")
	verifAssert(verifNot(verifLess(nStable+nUnstable, n)), "C07: the pages hold more relationships than exist (something is returned twice)")
	for _, lt := range all {
		t := tupleOfInternal(lt)
		have := 0
		for _, o := range all {
			have = have + b2i(tupleEq(tupleOfInternal(o), t))
		}
		lo, hi := 0, 0
		for s := 0; s < K; s++ {
			is := rowIsTuple(pre[s], t)
			lo = lo + b2i(verifAnd(stable(s), is))
			hi = hi + b2i(verifAnd(verifOr(stable(s), unstable(s)), is))
		}
		if kind == 1 {
			hi = hi + b2i(tupleEq(insT, t))
		}
		verifAssert(verifNot(verifLess(have, lo)), "C07: a stable relationship is returned fewer times than it is stored")
		verifAssert(verifNot(verifLess(hi, have)), "C07: a relationship is returned more often than it is stored")
	}
	// every stable row's content is among the listed tuples with the right count
	for s := 0; s < K; s++ {
		cnt := 0
		for _, o := range all {
			cnt = cnt + b2i(rowIsTuple(pre[s], tupleOfInternal(o)))
		}
		verifAssert(verifOr(verifNot(stable(s)), verifLess(0, cnt)), "C07: a relationship that existed for the whole iteration is not on any page")
	}
}

// HarnessC07Token: malformed tokens are rejected with ErrMalformedPageToken.
func HarnessC07Token() {
	db = &dbState{rows: dbSymRows(1)}
	dbQueries = map[*pop.Query]*dbQuery{}
	p := newModelPersister(0)
	tok := []string{"x", "not-a-uuid", "00000000-0000-0000-0000-00000000000", "zzzzzzzz-zzzz-zzzz-zzzz-zzzzzzzzzzzz"}[verifChoice(4)]
	_, _, err := p.GetRelationTuples(context.Background(), &relationtuple.RelationQuery{}, x.WithToken(tok))
	verifReach("c07.token")
	verifAssert(err != nil, "C07: a malformed page token is accepted")
}

// ---------------------------------------------------------------------------------------
// C05: multi-relationship writes are atomic

func rowsEqual(a, b dbRow) bool {
	same := verifAnd(verifAnd(verifEq(a.nid, b.nid), verifEq(a.ns, b.ns)), verifAnd(verifEq(a.obj, b.obj), verifEq(a.rel, b.rel)))
	same = verifAnd(same, bothOrNeitherB(a.isSet, b.isSet))
	same = verifAnd(same, verifAnd(verifEq(a.sid, b.sid), verifAnd(verifEq(a.sns, b.sns), verifAnd(verifEq(a.sobj, b.sobj), verifEq(a.srel, b.srel)))))
	// content only matters for present rows
	return verifAnd(bothOrNeitherB(a.present, b.present), verifOr(verifNot(a.present), same))
}

// HarnessC05: a write operation in which terminal database operation number
// failAt fails, or which contains a relationship without subject at a symbolic
// position: on error the table is exactly what it was before.
func HarnessC05() {
	K := verifParam("K")
	db = &dbState{rows: dbSymRows(K)}
	dbInserted = nil
	dbQueries = map[*pop.Query]*dbQuery{}
	pre := dbCopyRows(db.rows)
	p := newModelPersister(0)
	ctx := dbCtx()
	nIns, nDel := verifChoice(3), verifChoice(3)
	var ins, del []*relationtuple.RelationTuple
	for i := 0; i < nIns; i++ {
		ins = append(ins, pickTuple(false).value())
	}
	for i := 0; i < nDel; i++ {
		del = append(del, pickTuple(false).value())
	}
	// optionally one relationship without subject
	bad := verifChoice(nIns + nDel + 1)
	if bad < nIns {
		ins[bad].Subject = nil
	} else if bad < nIns+nDel {
		del[bad-nIns].Subject = nil
	}
	db.failAt = verifChoice(4) // 0 = no fault, else the 1st..3rd terminal operation fails
	var err error
	switch verifChoice(3) {
	case 0:
		verifTag("transact")
		err = p.TransactRelationTuples(ctx, ins, del)
	case 1:
		verifTag("create")
		err = p.WriteRelationTuples(ctx, ins...)
	default:
		verifTag("delete")
		err = p.DeleteRelationTuples(ctx, del...)
	}
	verifReach("c05.done")
	verifAssert(db.outsideTx == 0, "C05: a statement of a write operation was issued outside the open transaction")
	if err != nil {
		verifCover("c05.failed")
		verifAssert(len(db.rows) == len(pre), "C05: a failed write left rows behind")
		for s := 0; s < len(pre) && s < len(db.rows); s++ {
			verifAssert(rowsEqual(db.rows[s], pre[s]), "C05: after a failed write the stored relationships are not exactly what they were before")
		}
		return
	}
	verifCover("c05.succeeded")
	verifAssert(db.failed == 0, "C05: a write reports success although a statement failed")
}

// HarnessC05Chunks: writes that span the internal chunk sizes (3000 per INSERT,
// 100 per DELETE): the second statement fails => nothing of the first remains.
func HarnessC05Chunks() {
	db = &dbState{}
	dbInserted = nil
	dbQueries = map[*pop.Query]*dbQuery{}
	p := newModelPersister(0)
	ctx := dbCtx()
	mk := func(i int) *relationtuple.RelationTuple {
		var o uuid.UUID
		o[0] = 0x0B
		o[15] = byte(i%3 + 1)
		return &relationtuple.RelationTuple{Namespace: "N", Object: o, Relation: "r", Subject: &relationtuple.SubjectID{ID: o}}
	}
	which := verifChoice(2)
	db.failAt = verifChoice(3) // 0 none, 1 first statement, 2 second statement
	retry := false
	if db.failAt != 0 && verifChoice(2) == 1 {
		// the failure is retryable: the transaction callback runs a second time and succeeds
		db.retryable, retry = true, true
	}
	var err error
	if which == 0 {
		var ts []*relationtuple.RelationTuple
		for i := 0; i < chunkSizeInsertTuple+1; i++ {
			ts = append(ts, mk(i))
		}
		verifTag("insert-3001")
		err = p.WriteRelationTuples(ctx, ts...)
		verifReach("c05.chunks.insert")
		if retry {
			verifTag("insert-3001-with-transaction-retry")
			verifAssert(err == nil && len(db.rows) == chunkSizeInsertTuple+1, "C05: a 3001-relationship insert whose transaction is re-run after a retryable failure does not store exactly all rows")
		} else if db.failAt == 0 {
			verifAssert(err == nil && len(db.rows) == chunkSizeInsertTuple+1 && db.mutating == 2, "C05: a 3001-relationship insert does not take two statements / does not store all rows")
		} else {
			verifAssert(err != nil && len(db.rows) == 0, "C05: a failing statement of a chunked insert leaves rows of an earlier chunk behind")
		}
	} else {
		// three stored rows, delete 101 relationships (two statements)
		for i := 0; i < 3; i++ {
			db.rows = append(db.rows, dbRow{present: true, nid: 0, ns: 0, obj: i, rel: 0, sid: i})
		}
		pre := dbCopyRows(db.rows)
		var ts []*relationtuple.RelationTuple
		for i := 0; i < chunkSizeDeleteTuple+1; i++ {
			ts = append(ts, mk(i))
		}
		verifTag("delete-101")
		err = p.DeleteRelationTuples(ctx, ts...)
		verifReach("c05.chunks.delete")
		if retry {
			verifTag("delete-101-with-transaction-retry")
			gone := true
			for _, r := range db.rows {
				gone = verifAnd(gone, verifNot(r.present))
			}
			verifAssert(err == nil && gone, "C05: a 101-relationship delete whose transaction is re-run after a retryable failure reports success but does not delete all")
		} else if db.failAt == 0 {
			gone := true
			for _, r := range db.rows {
				gone = verifAnd(gone, verifNot(r.present))
			}
			verifAssert(err == nil && gone && db.mutating == 2, "C05: a 101-relationship delete does not take two statements / does not delete all")
		} else {
			verifAssert(err != nil, "C05: a failing statement of a chunked delete is not reported")
			for s := range pre {
				verifAssert(rowsEqual(db.rows[s], pre[s]), "C05: a failing statement of a chunked delete leaves an earlier chunk applied")
			}
		}
	}
	verifAssert(db.outsideTx == 0, "C05: a statement of a chunked write was issued outside the open transaction")
}

// ---------------------------------------------------------------------------------------
// C06 (read side) / Lemma P: the real Traverser and the read paths of the
// Persister, executed on a table that holds rows of two networks, return what
// the specification computes from the rows of the caller's network only.

var dbStrict bool

func dbCfgStrictMode(c *config.Config) bool { return dbStrict }

// namespace N: r is a plain relation, s is a permission (has a rewrite)
func dbCfgNamespaceManager(c *config.Config) (namespace.Manager, error) {
	return config.NewMemoryNamespaceManager(
		&namespace.Namespace{Name: "N", Relations: []ast.Relation{{Name: "r"}, {Name: "s", SubjectSetRewrite: &ast.SubjectSetRewrite{Children: ast.Children{&ast.ComputedSubjectSet{Relation: "r"}}}}}},
		&namespace.Namespace{Name: "M"},
	), nil
}

func HarnessC06Traverse() {
	K := verifParam("K")
	db = &dbState{rows: dbSymRows(K)}
	dbInserted = nil
	dbQueries = map[*pop.Query]*dbQuery{}
	p := newModelPersister(0)
	tr := NewTraverser(p)
	ctx := dbCtx()
	dbStrict = verifChoice(2) == 1
	start := pickTuple(false)
	mine := func(s int) bool { return verifAnd(db.rows[s].present, verifEq(db.rows[s].nid, 0)) }

	if verifChoice(2) == 0 {
		res, err := tr.TraverseSubjectSetExpansion(ctx, start.value())
		verifReach("c06.expansion")
		if err != nil {
			verifFail("C06: TraverseSubjectSetExpansion fails: " + err.Error())
			return
		}
		// specification: slots in order, stop after the first found
		k := 0
		stopped := false
		for s := 0; s < K && !stopped; s++ {
			r := db.rows[s]
			c := verifAnd(mine(s), verifAnd(verifAnd(verifEq(r.ns, start.ns), verifEq(r.obj, start.obj)), verifAnd(verifEq(r.rel, start.rel), r.isSet)))
			if !verifConcretizeBool(c) {
				continue
			}
			found := false
			for j := 0; j < K; j++ {
				o := db.rows[j]
				found = verifOr(found, verifAnd(mine(j), verifAnd(verifAnd(verifEq(o.ns, r.sns), verifEq(o.obj, r.sobj)), verifAnd(verifEq(o.rel, r.srel), rowSubjectIs(o, start.sub)))))
			}
			if k >= len(res) {
				verifFail("C06: the subject-set expansion misses a subject set of the caller's network")
				return
			}
			to := tupleOfInternal(res[k].To)
			verifAssert(verifAnd(verifAnd(verifEq(to.ns, r.sns), verifEq(to.obj, r.sobj)), verifEq(to.rel, r.srel)), "C06: the subject-set expansion returns a different subject set than stored")
			verifAssert(bothOrNeitherB(res[k].Found, found), "C06: the 'found' flag of a traversal result is not explained by the rows of the caller's network")
			k++
			if verifConcretizeBool(found) {
				stopped = true
			}
		}
		verifAssert(k == len(res), "C06: the subject-set expansion returns results that no row of the caller's network explains")
		return
	}
	// rewrite traversal over relations {r, s}
	rels := []string{"r", "s"}
	res, err := tr.TraverseSubjectSetRewrite(ctx, start.value(), rels)
	verifReach("c06.rewrite")
	if err != nil {
		verifFail("C06: TraverseSubjectSetRewrite fails: " + err.Error())
		return
	}
	// specification: a direct row for one of the queried relations (in strict
	// mode: only those without rewrite, and only in a namespace that has them)
	direct := false
	for s := 0; s < K; s++ {
		r := db.rows[s]
		relOK := verifEq(r.rel, 0) // "r"
		sOK := verifEq(r.rel, 1)   // "s": skipped in strict mode when the start namespace is N (s has a rewrite there)
		if dbStrict {
			sOK = verifAnd(sOK, verifNot(verifEq(start.ns, 0)))
		}
		direct = verifOr(direct, verifAnd(mine(s), verifAnd(verifAnd(verifEq(r.ns, start.ns), verifEq(r.obj, start.obj)), verifAnd(verifOr(relOK, sOK), rowSubjectIs(r, start.sub)))))
	}
	if len(res) == 1 && res[0].Found {
		verifAssert(direct, "C06: the rewrite traversal reports a direct relationship that the caller's network does not hold")
	} else {
		verifAssert(verifNot(direct), "C06: the rewrite traversal misses a direct relationship of the caller's network")
		verifAssert(len(res) == len(rels), "C06: the rewrite traversal does not return one candidate per relation")
	}
}

// HarnessC03SQLFaults (Lemma PF, feeds C03): when a database operation issued
// by a read call of the SQL layer fails, the call returns an error - it never
// turns the failure into an answer. Together with C03 on the storage
// specification (where the k-th interface call fails) this covers failures of
// the individual SQL statements behind one interface call.
func HarnessC03SQLFaults() {
	K := verifParam("K")
	db = &dbState{rows: dbSymRows(K)}
	dbInserted = nil
	dbQueries = map[*pop.Query]*dbQuery{}
	p := newModelPersister(0)
	tr := NewTraverser(p)
	ctx := dbCtx()
	dbStrict = verifChoice(2) == 1
	db.failAt = 1 + verifChoice(3)
	var err error
	switch verifChoice(4) {
	case 0:
		verifTag("GetRelationTuples")
		_, _, err = p.GetRelationTuples(ctx, pickQuery(false).value())
	case 1:
		verifTag("ExistsRelationTuples")
		_, err = p.ExistsRelationTuples(ctx, pickQuery(false).value())
	case 2:
		verifTag("TraverseSubjectSetExpansion")
		_, err = tr.TraverseSubjectSetExpansion(ctx, pickTuple(false).value())
	default:
		verifTag("TraverseSubjectSetRewrite")
		_, err = tr.TraverseSubjectSetRewrite(ctx, pickTuple(false).value(), []string{"r", "s"})
	}
	verifReach("c03.sql.returned")
	if db.failed > 0 {
		verifReach("c03.sql.fault-hit")
		verifAssert(err != nil, "C03: a read call of the SQL layer returns without error although one of its database operations failed")
	} else {
		verifAssert(err == nil, "C03: a read call of the SQL layer fails although no database operation failed")
	}
}

// HarnessC13PageSize (feeds C13): the list handlers hand the client's page size
// (any non-negative number) to GetRelationTuples, where it goes into LIMIT and
// into slice arithmetic: no page size makes the call panic, and a page never
// holds more rows than asked for.
func HarnessC13PageSize() {
	K := verifParam("K")
	db = &dbState{rows: dbSymRows(K)}
	dbInserted = nil
	dbQueries = map[*pop.Query]*dbQuery{}
	p := newModelPersister(0)
	ctx := dbCtx()
	size := verifInt()
	verifAssume(verifNot(verifLess(size, 0)))
	q := pickQuery(true)
	res, _, err := p.GetRelationTuples(ctx, q.value(), x.WithSize(size))
	verifReach("c13.sql.list")
	if err != nil {
		verifFail("C13: GetRelationTuples fails on a non-negative page size: " + err.Error())
		return
	}
	if verifConcretizeBool(verifAnd(verifLess(0, size), verifLess(size, K+1))) {
		verifAssert(verifNot(verifLess(size, len(res))), "C13: a page holds more rows than the page size")
	}
}

func dbCfgMaxReadWidth(c *config.Config) int { return 100 }

// HarnessC07TraverseLarge: the subject-set expansion pages through the rows of
// one object#relation 1000 at a time with its own keyset loop. A concrete table
// with 999..2001 subject-set rows on one node, the only subject set that
// contains the subject stored last (or nowhere): every row is returned until
// the first 'found', which is found however many pages precede it.
func HarnessC07TraverseLarge() {
	db = &dbState{}
	dbInserted = nil
	dbQueries = map[*pop.Query]*dbQuery{}
	p := newModelPersister(0)
	tr := NewTraverser(p)
	ctx := dbCtx()
	sizes := []int{1000, 1001}
	if verifParam("large") == 1 {
		sizes = []int{999, 1000, 1001, 2000, 2001}
	}
	n := sizes[verifChoice(len(sizes))]
	withMember := verifChoice(2) == 1
	// n rows N:o0#r@(N:o1#r); the last one N:o0#r@(N:o2#r)
	for i := 0; i < n; i++ {
		so := 1
		if i == n-1 {
			so = 2
		}
		db.rows = append(db.rows, dbRow{present: true, nid: 0, ns: 0, obj: 0, rel: 0, isSet: true, sns: 0, sobj: so, srel: 0})
	}
	if withMember {
		// N:o2#r@u1
		db.rows = append(db.rows, dbRow{present: true, nid: 0, ns: 0, obj: 2, rel: 0, sid: 1})
	}
	verifTag("rows=" + strconv.Itoa(n))
	start := apiTuple{ns: 0, obj: 0, rel: 0, sub: apiSub{sid: 1}}
	res, err := tr.TraverseSubjectSetExpansion(ctx, start.value())
	verifReach("c07.traverse-large")
	if err != nil {
		verifFail("C07: TraverseSubjectSetExpansion fails on a large node: " + err.Error())
		return
	}
	verifAssert(len(res) == n, "C07: the subject-set expansion does not return every subject set of a node with more rows than its page")
	if len(res) == n {
		verifAssert(res[n-1].Found == withMember, "C07: the subject-set expansion misses (or invents) the membership found beyond its first page")
	}
}
