//go:build verif

package relationtuple

// C13 / C17 (relationship read and write API): the real REST and gRPC
// handlers with recording storage stubs, a capturing writer and JSON decoding
// replaced by "an arbitrary value of the static type".

import (
	"context"
	"encoding/json"
	stderrors "errors"
	"io"
	"net/http"
	"net/url"

	"github.com/gofrs/uuid"
	"github.com/ory/herodot"
	"github.com/ory/x/configx"
	"github.com/ory/x/logrusx"
	"github.com/ory/x/otelx"
	"github.com/spf13/pflag"

	"github.com/ory/keto/internal/driver/config"
	"github.com/ory/keto/internal/namespace"
	"github.com/ory/keto/internal/x"
	"github.com/ory/keto/ketoapi"
	rts "github.com/ory/keto/proto/ory/keto/relation_tuples/v1alpha2"
)

type verifMapping struct {
	strs   []string
	ids    []uuid.UUID
	writes int
}

func (m *verifMapping) idFor(s string) uuid.UUID {
	for i := range m.strs {
		if verifConcretizeBool(verifStrEq(m.strs[i], s)) {
			return m.ids[i]
		}
	}
	var u uuid.UUID
	u[0] = 0xAB
	u[15] = byte(len(m.strs) + 1)
	m.strs = append(m.strs, s)
	m.ids = append(m.ids, u)
	return u
}
func (m *verifMapping) MapStringsToUUIDs(ctx context.Context, s ...string) ([]uuid.UUID, error) {
	m.writes++
	return m.MapStringsToUUIDsReadOnly(ctx, s...)
}
func (m *verifMapping) MapStringsToUUIDsReadOnly(ctx context.Context, s ...string) ([]uuid.UUID, error) {
	out := make([]uuid.UUID, len(s))
	for i := range s {
		out[i] = m.idFor(s[i])
	}
	return out, nil
}
func (m *verifMapping) MapUUIDsToStrings(ctx context.Context, u ...uuid.UUID) ([]string, error) {
	out := make([]string, len(u))
	for i := range u {
		for j := range m.ids {
			if m.ids[j] == u[i] {
				out[i] = m.strs[j]
			}
		}
	}
	return out, nil
}

// verifManager records writes and the pagination options it was given.
type verifManager struct {
	writes   int
	lastSize int
	sizeSeen bool
	stored   []*RelationTuple
}

func (m *verifManager) GetRelationTuples(ctx context.Context, q *RelationQuery, o ...x.PaginationOptionSetter) ([]*RelationTuple, string, error) {
	opts := x.GetPaginationOptions(o...)
	m.lastSize, m.sizeSeen = opts.Size, true
	return m.stored, "", nil
}
func (m *verifManager) ExistsRelationTuples(ctx context.Context, q *RelationQuery) (bool, error) {
	return false, nil
}
func (m *verifManager) WriteRelationTuples(ctx context.Context, rs ...*RelationTuple) error {
	m.writes++
	return nil
}
func (m *verifManager) DeleteRelationTuples(ctx context.Context, rs ...*RelationTuple) error {
	m.writes++
	return nil
}
func (m *verifManager) DeleteAllRelationTuples(ctx context.Context, q *RelationQuery) error {
	m.writes++
	return nil
}
func (m *verifManager) TransactRelationTuples(ctx context.Context, ins []*RelationTuple, del []*RelationTuple) error {
	m.writes++
	return nil
}

type verifWriter struct {
	code    int
	payload interface{}
	err     error
}

func (w *verifWriter) Write(_ http.ResponseWriter, _ *http.Request, e interface{}, _ ...herodot.EncoderOptions) {
	w.code, w.payload = 200, e
}
func (w *verifWriter) WriteCode(_ http.ResponseWriter, _ *http.Request, code int, e interface{}, _ ...herodot.EncoderOptions) {
	w.code, w.payload = code, e
}
func (w *verifWriter) WriteCreated(_ http.ResponseWriter, _ *http.Request, _ string, e interface{}) {
	w.code, w.payload = 201, e
}
func (w *verifWriter) WriteError(_ http.ResponseWriter, _ *http.Request, err error, _ ...herodot.Option) {
	w.err = err
	w.code = verifStatusOf(err)
}
func (w *verifWriter) WriteErrorCode(_ http.ResponseWriter, _ *http.Request, code int, err error, _ ...herodot.Option) {
	w.code, w.err = code, err
}

func verifStatusOf(err error) int {
	if c := herodot.StatusCodeCarrier(nil); stderrors.As(err, &c) {
		if c.StatusCode() == 0 {
			return 500
		}
		return c.StatusCode()
	}
	return 500
}

type verifRW struct {
	code int
	h    http.Header
}

func (w *verifRW) Header() http.Header {
	if w.h == nil {
		w.h = http.Header{}
	}
	return w.h
}
func (w *verifRW) Write(b []byte) (int, error) { return len(b), nil }
func (w *verifRW) WriteHeader(code int)        { w.code = code }

type verifBody struct{ empty bool }

func (b *verifBody) Read(p []byte) (int, error) {
	if b.empty {
		return 0, io.EOF
	}
	return 0, nil
}
func (b *verifBody) Close() error { return nil }

type verifTransactor struct{ d *verifDeps }

func (t verifTransactor) Transaction(ctx context.Context, f func(ctx context.Context) error) error {
	t.d.inTx++
	defer func() { t.d.inTx-- }()
	return f(ctx)
}

type verifDeps struct {
	mgr    *verifManager
	mm     *verifMapping
	wr     *verifWriter
	cfg    *config.Config
	log    *logrusx.Logger
	tr     *otelx.Tracer
	mapper *Mapper
	roMap  *Mapper
	rwUsed int
	inTx   int
}

func (d *verifDeps) RelationTupleManager() Manager          { return d.mgr }
func (d *verifDeps) MappingManager() MappingManager          { return d.mm }
func (d *verifDeps) Mapper() *Mapper                         { d.rwUsed++; return d.mapper }
func (d *verifDeps) ReadOnlyMapper() *Mapper                 { return d.roMap }
func (d *verifDeps) Logger() *logrusx.Logger                 { return d.log }
func (d *verifDeps) Writer() herodot.Writer                  { return d.wr }
func (d *verifDeps) Config(context.Context) *config.Config   { return d.cfg }
func (d *verifDeps) Tracer(context.Context) *otelx.Tracer    { return d.tr }
func (d *verifDeps) NetworkID(context.Context) uuid.UUID     { return uuid.Nil }
func (d *verifDeps) Transactor() interface {
	Transaction(ctx context.Context, f func(ctx context.Context) error) error
} {
	return verifTransactor{d}
}

var verifKnownNamespaces = []*namespace.Namespace{{Name: "N"}, {Name: "M"}}

func verifHCfgNamespaceManager(c *config.Config) (namespace.Manager, error) {
	return config.NewMemoryNamespaceManager(verifKnownNamespaces...), nil
}

func verifNewDeps() *verifDeps {
	d := &verifDeps{mgr: &verifManager{}, mm: &verifMapping{}, wr: &verifWriter{}}
	if verifNative() {
		l := logrusx.New("verif", "0")
		c, err := config.NewDefault(context.Background(), pflag.NewFlagSet("verif", pflag.ContinueOnError), l,
			configx.WithValue(config.KeyDSN, "memory"),
			configx.WithValue(config.KeyNamespaces, verifKnownNamespaces))
		if err != nil {
			panic(err)
		}
		d.cfg, d.log = c, l
		t, err := otelx.New("verif", l, c.TracingConfig())
		if err != nil {
			panic(err)
		}
		d.tr = t
	} else {
		d.cfg, d.log, d.tr = &config.Config{}, &logrusx.Logger{}, &otelx.Tracer{}
	}
	d.mapper = &Mapper{D: d}
	d.roMap = &Mapper{D: d, ReadOnly: true}
	return d
}

var verifJSONNext func(v interface{}) error

func verifJSONDecode(d *json.Decoder, v interface{}) error { return verifJSONNext(v) }

var errVerifJSON = stderrors.New("verif: malformed JSON")

var verifCurrentQuery url.Values

func verifURLQuery(u *url.URL) url.Values { return verifCurrentQuery }

var verifNSPool = []string{"N", "X"}

func verifAPITuple() *ketoapi.RelationTuple {
	t := &ketoapi.RelationTuple{Namespace: verifNSPool[verifChoice(len(verifNSPool))], Object: verifOpaqueString(), Relation: "r"}
	switch verifChoice(4) {
	case 0:
		s := verifOpaqueString()
		t.SubjectID = &s
	case 1:
		t.SubjectSet = &ketoapi.SubjectSet{Namespace: verifNSPool[verifChoice(len(verifNSPool))], Object: verifOpaqueString(), Relation: "r"}
	case 2:
	case 3:
		s := verifOpaqueString()
		t.SubjectID = &s
		t.SubjectSet = &ketoapi.SubjectSet{Namespace: "N", Object: verifOpaqueString(), Relation: "r"}
	}
	return t
}

func verifProtoSubject() *rts.Subject {
	switch verifChoice(4) {
	case 0:
		return nil
	case 1:
		return &rts.Subject{}
	case 2:
		return rts.NewSubjectID(verifOpaqueString())
	}
	return rts.NewSubjectSet(verifNSPool[verifChoice(len(verifNSPool))], verifOpaqueString(), "r")
}

func verifOptStr(known bool) *string {
	switch verifChoice(3) {
	case 0:
		return nil
	case 1:
		s := ""
		return &s
	}
	if known {
		s := verifNSPool[verifChoice(len(verifNSPool))]
		return &s
	}
	s := verifOpaqueString()
	return &s
}

func verifQueryKeys(q url.Values) {
	keys := []string{ketoapi.NamespaceKey, ketoapi.ObjectKey, ketoapi.RelationKey, ketoapi.SubjectIDKey, ketoapi.SubjectSetNamespaceKey, ketoapi.SubjectSetObjectKey, ketoapi.SubjectSetRelationKey}
	ns := verifNSPool[verifChoice(len(verifNSPool))]
	for _, k := range keys {
		if verifChoice(2) == 1 {
			switch k {
			case ketoapi.NamespaceKey, ketoapi.SubjectSetNamespaceKey:
				q.Set(k, ns)
			case ketoapi.RelationKey, ketoapi.SubjectSetRelationKey:
				q.Set(k, "r")
			default:
				q.Set(k, verifOpaqueString())
			}
		}
	}
}

func verifNoWrites(d *verifDeps, what string) {
	verifAssert(d.mm.writes == 0 && d.mgr.writes == 0 && d.rwUsed == 0, "C17: a read API ("+what+") used a writing storage operation")
}

// HarnessC13Read: gRPC ListRelationTuples and REST GET /relation-tuples with
// arbitrary requests (absent queries, page sizes over the whole int range,
// arbitrary tokens).
func HarnessC13Read() {
	d := verifNewDeps()
	h := NewHandler(d)
	ctx := context.Background()
	if verifChoice(2) == 0 {
		req := &rts.ListRelationTuplesRequest{PageSize: verifInt32(), PageToken: verifOpaqueString()}
		switch verifChoice(3) {
		case 1:
			req.RelationQuery = &rts.RelationQuery{Namespace: verifOptStr(true), Object: verifOptStr(false), Relation: verifOptStr(false), Subject: verifProtoSubject()}
		case 2:
			req.Query = &rts.ListRelationTuplesRequest_Query{Namespace: verifNSPool[verifChoice(len(verifNSPool))], Object: verifOpaqueString(), Relation: "r", Subject: verifProtoSubject()} //nolint:staticcheck
		}
		verifTag("grpc-list")
		_, err := h.ListRelationTuples(ctx, req)
		verifReach("c13.read.grpc")
		if err != nil {
			verifAssert(verifStatusOf(err) < 500, "C13: gRPC ListRelationTuples answers a malformed request with an internal error")
		} else if d.mgr.sizeSeen {
			verifTag("negative-page-size")
			verifAssert(d.mgr.lastSize >= 0, "C13: a negative page size is passed to the storage layer (goes verbatim into LIMIT)")
		}
		verifNoWrites(d, "gRPC ListRelationTuples")
		return
	}
	q := url.Values{}
	verifQueryKeys(q)
	switch verifChoice(4) {
	case 1:
		q.Set("page_size", "-5")
	case 2:
		q.Set("page_size", "abc")
	case 3:
		q.Set("page_size", "7")
		q.Set("page_token", verifOpaqueString())
	}
	verifCurrentQuery = q
	verifTag("rest-list")
	h.getRelations(&verifRW{}, &http.Request{URL: &url.URL{}, Body: &verifBody{empty: true}}, nil)
	verifReach("c13.read.rest")
	verifAssert(d.wr.code != 0 && d.wr.code < 500, "C13: GET /relation-tuples answers with a 5xx or not at all")
	if d.wr.code == 200 && d.mgr.sizeSeen {
		verifTag("negative-page-size")
		verifAssert(d.mgr.lastSize >= 0, "C13: a negative page size is passed to the storage layer (goes verbatim into LIMIT)")
	}
	verifNoWrites(d, "GET /relation-tuples")
}

// HarnessC13Write: create / delete / patch (REST) and transact / delete (gRPC)
// with arbitrary bodies; rejected requests must not write.
func HarnessC13Write() {
	d := verifNewDeps()
	h := NewHandler(d)
	ctx := context.Background()
	rw := &verifRW{}
	switch verifChoice(5) {
	case 0: // PUT
		verifJSONNext = func(v interface{}) error {
			if verifChoice(4) == 0 {
				return errVerifJSON
			}
			*(v.(*ketoapi.RelationTuple)) = *verifAPITuple()
			return nil
		}
		verifTag("put")
		h.createRelation(rw, &http.Request{URL: &url.URL{}, Body: &verifBody{}}, nil)
		verifReach("c13.write.put")
		verifAssert(d.wr.code != 0 && d.wr.code < 500, "C13: PUT /admin/relation-tuples answers with a 5xx or not at all")
		if d.wr.code >= 400 {
			verifAssert(d.mgr.writes == 0, "C13: a rejected PUT wrote relationships")
		}
	case 1: // DELETE
		q := url.Values{}
		verifQueryKeys(q)
		if verifChoice(3) == 0 {
			q.Set("bogus", "1")
		}
		verifCurrentQuery = q
		verifTag("delete")
		h.deleteRelations(rw, &http.Request{URL: &url.URL{}, Body: &verifBody{empty: verifChoice(2) == 0}}, nil)
		verifReach("c13.write.delete")
		verifAssert((d.wr.code != 0 && d.wr.code < 500) || rw.code == 204, "C13: DELETE /admin/relation-tuples answers with a 5xx or not at all")
		if d.wr.code >= 400 {
			verifAssert(d.mgr.writes == 0, "C13: a rejected DELETE removed relationships")
		}
	case 2: // PATCH
		n := verifChoice(3)
		verifJSONNext = func(v interface{}) error {
			if verifChoice(4) == 0 {
				return errVerifJSON
			}
			out := v.(*[]*ketoapi.PatchDelta)
			for i := 0; i < n; i++ {
				switch verifChoice(4) {
				case 0:
					*out = append(*out, nil) // JSON null
					verifTag("patch-null-delta")
				case 1:
					*out = append(*out, &ketoapi.PatchDelta{Action: ketoapi.ActionInsert})
				case 2:
					*out = append(*out, &ketoapi.PatchDelta{Action: ketoapi.PatchAction("bogus"), RelationTuple: verifAPITuple()})
				default:
					a := ketoapi.ActionInsert
					if verifChoice(2) == 1 {
						a = ketoapi.ActionDelete
					}
					*out = append(*out, &ketoapi.PatchDelta{Action: a, RelationTuple: verifAPITuple()})
				}
			}
			return nil
		}
		verifTag("patch")
		h.patchRelationTuples(rw, &http.Request{URL: &url.URL{}, Body: &verifBody{}}, nil)
		verifReach("c13.write.patch")
		verifAssert((d.wr.code != 0 && d.wr.code < 500) || rw.code == 204, "C13: PATCH /admin/relation-tuples answers with a 5xx or not at all")
		if d.wr.code >= 400 {
			verifAssert(d.mgr.writes == 0, "C13: a rejected PATCH changed relationships")
		}
	case 3: // gRPC transact
		req := &rts.TransactRelationTuplesRequest{}
		n := verifChoice(3)
		for i := 0; i < n; i++ {
			dl := &rts.RelationTupleDelta{Action: rts.RelationTupleDelta_Action(verifChoice(3))}
			if verifChoice(3) != 0 {
				dl.RelationTuple = &rts.RelationTuple{Namespace: verifNSPool[verifChoice(len(verifNSPool))], Object: verifOpaqueString(), Relation: "r", Subject: verifProtoSubject()}
			}
			req.RelationTupleDeltas = append(req.RelationTupleDeltas, dl)
		}
		verifTag("grpc-transact")
		_, err := h.TransactRelationTuples(ctx, req)
		verifReach("c13.write.transact")
		if err != nil {
			verifAssert(verifStatusOf(err) < 500, "C13: gRPC TransactRelationTuples answers a malformed request with an internal error")
			verifAssert(d.mgr.writes == 0, "C13: a rejected transact request changed relationships")
		}
	default: // gRPC delete
		req := &rts.DeleteRelationTuplesRequest{}
		switch verifChoice(3) {
		case 1:
			req.RelationQuery = &rts.RelationQuery{Namespace: verifOptStr(true), Object: verifOptStr(false), Relation: verifOptStr(false), Subject: verifProtoSubject()}
		case 2:
			req.Query = &rts.DeleteRelationTuplesRequest_Query{Namespace: verifNSPool[verifChoice(len(verifNSPool))], Object: verifOpaqueString(), Relation: "r", Subject: verifProtoSubject()} //nolint:staticcheck
		}
		verifTag("grpc-delete")
		_, err := h.DeleteRelationTuples(ctx, req)
		verifReach("c13.write.grpc-delete")
		if err != nil {
			verifAssert(verifStatusOf(err) < 500, "C13: gRPC DeleteRelationTuples answers a malformed request with an internal error")
			verifAssert(d.mgr.writes == 0, "C13: a rejected delete request removed relationships")
		}
	}
}
