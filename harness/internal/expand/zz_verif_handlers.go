//go:build verif

package expand

// C13 / C17 (expand API): the real REST and gRPC expand handlers and the real
// expand engine on top of recording storage stubs.

import (
	"context"
	stderrors "errors"
	"net/http"
	"net/url"

	"github.com/gofrs/uuid"
	"github.com/ory/herodot"
	"github.com/ory/x/configx"
	"github.com/ory/x/logrusx"
	"github.com/ory/x/otelx"
	"github.com/spf13/pflag"

	"github.com/ory/keto/internal/driver/config"
	"github.com/ory/keto/internal/namespace"
	"github.com/ory/keto/internal/relationtuple"
	"github.com/ory/keto/internal/x"
	rts "github.com/ory/keto/proto/ory/keto/relation_tuples/v1alpha2"
)

type verifMapping struct {
	strs   []string
	ids    []uuid.UUID
	writes int
}

func (m *verifMapping) idFor(s string) uuid.UUID {
	for i := range m.strs {
		if verifConcretizeBool(verifStrEq(m.strs[i], s)) {
			return m.ids[i]
		}
	}
	var u uuid.UUID
	u[0] = 0xAB
	u[15] = byte(len(m.strs) + 1)
	m.strs = append(m.strs, s)
	m.ids = append(m.ids, u)
	return u
}
func (m *verifMapping) MapStringsToUUIDs(ctx context.Context, s ...string) ([]uuid.UUID, error) {
	m.writes++
	return m.MapStringsToUUIDsReadOnly(ctx, s...)
}
func (m *verifMapping) MapStringsToUUIDsReadOnly(ctx context.Context, s ...string) ([]uuid.UUID, error) {
	out := make([]uuid.UUID, len(s))
	for i := range s {
		out[i] = m.idFor(s[i])
	}
	return out, nil
}
func (m *verifMapping) MapUUIDsToStrings(ctx context.Context, u ...uuid.UUID) ([]string, error) {
	out := make([]string, len(u))
	for i := range u {
		for j := range m.ids {
			if m.ids[j] == u[i] {
				out[i] = m.strs[j]
			}
		}
	}
	return out, nil
}

// verifManager: the requested subject set has one member (a subject id) or none.
type verifManager struct {
	writes int
	member *relationtuple.RelationTuple
}

func (m *verifManager) GetRelationTuples(ctx context.Context, q *relationtuple.RelationQuery, o ...x.PaginationOptionSetter) ([]*relationtuple.RelationTuple, string, error) {
	if m.member != nil {
		return []*relationtuple.RelationTuple{m.member}, "", nil
	}
	return nil, "", nil
}
func (m *verifManager) ExistsRelationTuples(ctx context.Context, q *relationtuple.RelationQuery) (bool, error) {
	return false, nil
}
func (m *verifManager) WriteRelationTuples(ctx context.Context, rs ...*relationtuple.RelationTuple) error {
	m.writes++
	return nil
}
func (m *verifManager) DeleteRelationTuples(ctx context.Context, rs ...*relationtuple.RelationTuple) error {
	m.writes++
	return nil
}
func (m *verifManager) DeleteAllRelationTuples(ctx context.Context, q *relationtuple.RelationQuery) error {
	m.writes++
	return nil
}
func (m *verifManager) TransactRelationTuples(ctx context.Context, ins []*relationtuple.RelationTuple, del []*relationtuple.RelationTuple) error {
	m.writes++
	return nil
}

type verifWriter struct {
	code    int
	payload interface{}
	err     error
}

func (w *verifWriter) Write(_ http.ResponseWriter, _ *http.Request, e interface{}, _ ...herodot.EncoderOptions) {
	w.code, w.payload = 200, e
}
func (w *verifWriter) WriteCode(_ http.ResponseWriter, _ *http.Request, code int, e interface{}, _ ...herodot.EncoderOptions) {
	w.code, w.payload = code, e
}
func (w *verifWriter) WriteCreated(_ http.ResponseWriter, _ *http.Request, _ string, e interface{}) {
	w.code, w.payload = 201, e
}
func (w *verifWriter) WriteError(_ http.ResponseWriter, _ *http.Request, err error, _ ...herodot.Option) {
	w.err = err
	w.code = verifStatusOf(err)
}
func (w *verifWriter) WriteErrorCode(_ http.ResponseWriter, _ *http.Request, code int, err error, _ ...herodot.Option) {
	w.code, w.err = code, err
}

func verifStatusOf(err error) int {
	if c := herodot.StatusCodeCarrier(nil); stderrors.As(err, &c) {
		if c.StatusCode() == 0 {
			return 500
		}
		return c.StatusCode()
	}
	return 500
}

type verifDeps struct {
	eng    *Engine
	mgr    *verifManager
	mm     *verifMapping
	wr     *verifWriter
	cfg    *config.Config
	log    *logrusx.Logger
	tr     *otelx.Tracer
	mapper *relationtuple.Mapper
	roMap  *relationtuple.Mapper
	rwUsed int
}

func (d *verifDeps) ExpandEngine() *Engine                        { return d.eng }
func (d *verifDeps) RelationTupleManager() relationtuple.Manager  { return d.mgr }
func (d *verifDeps) MappingManager() relationtuple.MappingManager { return d.mm }
func (d *verifDeps) Mapper() *relationtuple.Mapper                { d.rwUsed++; return d.mapper }
func (d *verifDeps) ReadOnlyMapper() *relationtuple.Mapper        { return d.roMap }
func (d *verifDeps) Logger() *logrusx.Logger                      { return d.log }
func (d *verifDeps) Writer() herodot.Writer                       { return d.wr }
func (d *verifDeps) Config(context.Context) *config.Config        { return d.cfg }
func (d *verifDeps) Tracer(context.Context) *otelx.Tracer         { return d.tr }
func (d *verifDeps) NetworkID(context.Context) uuid.UUID          { return uuid.Nil }

var verifKnownNamespaces = []*namespace.Namespace{{Name: "N"}, {Name: "M"}}

func verifHCfgNamespaceManager(c *config.Config) (namespace.Manager, error) {
	return config.NewMemoryNamespaceManager(verifKnownNamespaces...), nil
}
func verifHCfgMaxReadDepth(c *config.Config) int { return 5 }

func verifNewDeps() *verifDeps {
	d := &verifDeps{mgr: &verifManager{}, mm: &verifMapping{}, wr: &verifWriter{}}
	if verifNative() {
		l := logrusx.New("verif", "0")
		c, err := config.NewDefault(context.Background(), pflag.NewFlagSet("verif", pflag.ContinueOnError), l,
			configx.WithValue(config.KeyDSN, "memory"),
			configx.WithValue(config.KeyNamespaces, verifKnownNamespaces))
		if err != nil {
			panic(err)
		}
		d.cfg, d.log = c, l
		t, err := otelx.New("verif", l, c.TracingConfig())
		if err != nil {
			panic(err)
		}
		d.tr = t
	} else {
		d.cfg, d.log, d.tr = &config.Config{}, &logrusx.Logger{}, &otelx.Tracer{}
	}
	d.mapper = &relationtuple.Mapper{D: d}
	d.roMap = &relationtuple.Mapper{D: d, ReadOnly: true}
	d.eng = NewEngine(d)
	return d
}

var verifCurrentQuery url.Values

func verifURLQuery(u *url.URL) url.Values { return verifCurrentQuery }

var verifNSPool = []string{"N", "X"}

func HarnessC13Expand() {
	d := verifNewDeps()
	h := NewHandler(d)
	if verifChoice(2) == 1 {
		d.mgr.member = &relationtuple.RelationTuple{Namespace: "N", Object: d.mm.idFor("obj"), Relation: "r", Subject: &relationtuple.SubjectID{ID: d.mm.idFor("someone")}}
	}
	if verifChoice(2) == 0 {
		req := &rts.ExpandRequest{MaxDepth: verifInt32()}
		switch verifChoice(4) {
		case 0:
			verifTag("grpc-absent-subject")
		case 1:
			req.Subject = &rts.Subject{}
			verifTag("grpc-empty-subject")
		case 2:
			req.Subject = rts.NewSubjectID(verifOpaqueString())
			verifTag("grpc")
		default:
			req.Subject = rts.NewSubjectSet(verifNSPool[verifChoice(len(verifNSPool))], verifOpaqueString(), "r")
			verifTag("grpc")
		}
		_, err := h.Expand(context.Background(), req)
		verifReach("c13.expand.grpc")
		if err != nil {
			verifAssert(verifStatusOf(err) < 500, "C13: gRPC Expand answers a malformed request with an internal error")
		}
	} else {
		q := url.Values{}
		for _, k := range []string{"namespace", "object", "relation"} {
			if verifChoice(2) == 1 {
				switch k {
				case "namespace":
					q.Set(k, verifNSPool[verifChoice(len(verifNSPool))])
				case "relation":
					q.Set(k, "r") // (the relation feeds a UUIDv5 in the visited set: concrete)
				default:
					q.Set(k, verifOpaqueString())
				}
			}
		}
		switch verifChoice(3) {
		case 1:
			q.Set("max-depth", "abc")
		case 2:
			q.Set("max-depth", "-3")
		}
		verifCurrentQuery = q
		verifTag("rest")
		h.getExpand(nil, &http.Request{URL: &url.URL{}}, nil)
		verifReach("c13.expand.rest")
		verifAssert(d.wr.code != 0 && d.wr.code < 500, "C13: GET /relation-tuples/expand answers with a 5xx or not at all")
	}
	verifAssert(d.mm.writes == 0 && d.mgr.writes == 0 && d.rwUsed == 0, "C17: the expand API used a writing storage operation")
}
