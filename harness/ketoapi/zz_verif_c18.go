//go:build verif

package ketoapi

// C18: relationship encodings are faithful on their documented domains.

// verifC18Dom is the documented domain of the human-readable form: the fields
// avoid the separator characters in the positions where they are significant.
func verifC18NoByte(s string, c byte) bool {
	r := true
	for i := 0; i < len(s); i++ {
		r = verifAnd(r, s[i] != c)
	}
	return r
}

func verifC18NotParenEdge(s string) bool {
	if len(s) == 0 {
		return true
	}
	f, l := s[0], s[len(s)-1]
	return verifAnd(verifAnd(f != '(', f != ')'), verifAnd(l != '(', l != ')'))
}

// HarnessC18StringRoundTripID: FromString(String(x)) == x for subject-id tuples
// whose fields have the concrete lengths chosen by verifChoice and arbitrary
// bytes within the domain.
func HarnessC18StringRoundTripID() {
	c := verifParam("cap")
	ns := verifString(verifChoice(c + 1))
	obj := verifString(verifChoice(c + 1))
	rel := verifString(verifChoice(c + 1))
	sid := verifString(verifChoice(c + 1))
	// domain
	verifAssume(verifC18NoByte(ns, ':'))
	verifAssume(verifC18NoByte(obj, '#'))
	verifAssume(verifC18NoByte(rel, '@'))
	verifAssume(verifC18NoByte(sid, ':'))
	verifAssume(verifC18NotParenEdge(sid))
	x := &RelationTuple{Namespace: ns, Object: obj, Relation: rel, SubjectID: &sid}
	s := x.String()
	y, err := (&RelationTuple{}).FromString(s)
	verifReach("c18.id.decoded")
	verifAssert(err == nil, "C18 string: FromString(String(x)) fails for x in the documented domain (subject id)")
	if err != nil {
		return
	}
	verifAssert(y.Namespace == ns, "C18 string: namespace changed by round trip")
	verifAssert(y.Object == obj, "C18 string: object changed by round trip")
	verifAssert(y.Relation == rel, "C18 string: relation changed by round trip")
	verifAssert(y.SubjectSet == nil && y.SubjectID != nil, "C18 string: subject id became a subject set")
	if y.SubjectID != nil {
		verifAssert(*y.SubjectID == sid, "C18 string: subject id changed by round trip")
	}
}

// HarnessC18StringRoundTripSet: same for subject-set tuples.
func HarnessC18StringRoundTripSet() {
	c := verifParam("cap")
	ns := verifString(verifChoice(c + 1))
	obj := verifString(verifChoice(c + 1))
	rel := verifString(verifChoice(c + 1))
	sns := verifString(verifChoice(c + 1))
	sobj := verifString(verifChoice(c + 1))
	srel := verifString(verifChoice(c + 1))
	verifAssume(verifC18NoByte(ns, ':'))
	verifAssume(verifC18NoByte(obj, '#'))
	verifAssume(verifC18NoByte(rel, '@'))
	// subject set: namespace without ':' '#' and no leading paren; object
	// without '#'; relation (last) without trailing paren
	verifAssume(verifC18NoByte(sns, ':'))
	verifAssume(verifC18NoByte(sns, '#'))
	verifAssume(verifC18NoByte(sobj, '#'))
	if len(sns) > 0 {
		verifAssume(verifAnd(sns[0] != '(', sns[0] != ')'))
	}
	// the last byte of the rendered subject set must not be a parenthesis
	last := srel
	if len(srel) == 0 {
		last = sobj
	}
	if len(last) > 0 {
		l := last[len(last)-1]
		verifAssume(verifAnd(l != '(', l != ')'))
	}
	if len(sns) == 0 && len(sobj) > 0 {
		verifAssume(verifAnd(sobj[0] != '(', sobj[0] != ')'))
	}
	x := &RelationTuple{Namespace: ns, Object: obj, Relation: rel, SubjectSet: &SubjectSet{Namespace: sns, Object: sobj, Relation: srel}}
	s := x.String()
	y, err := (&RelationTuple{}).FromString(s)
	verifReach("c18.set.decoded")
	verifAssert(err == nil, "C18 string: FromString(String(x)) fails for x in the documented domain (subject set)")
	if err != nil {
		return
	}
	verifAssert(y.Namespace == ns, "C18 string: namespace changed by round trip")
	verifAssert(y.Object == obj, "C18 string: object changed by round trip")
	verifAssert(y.Relation == rel, "C18 string: relation changed by round trip")
	verifAssert(y.SubjectID == nil && y.SubjectSet != nil, "C18 string: subject set became a subject id")
	if y.SubjectSet != nil {
		verifAssert(y.SubjectSet.Namespace == sns, "C18 string: subject set namespace changed")
		verifAssert(y.SubjectSet.Object == sobj, "C18 string: subject set object changed")
		verifAssert(y.SubjectSet.Relation == srel, "C18 string: subject set relation changed")
	}
}

func verifC18TupleEq(a, b *RelationTuple) bool {
	r := verifAnd(a.Namespace == b.Namespace, verifAnd(a.Object == b.Object, a.Relation == b.Relation))
	if (a.SubjectID == nil) != (b.SubjectID == nil) || (a.SubjectSet == nil) != (b.SubjectSet == nil) {
		return false
	}
	if a.SubjectID != nil {
		r = verifAnd(r, *a.SubjectID == *b.SubjectID)
	}
	if a.SubjectSet != nil {
		r = verifAnd(r, verifAnd(a.SubjectSet.Namespace == b.SubjectSet.Namespace,
			verifAnd(a.SubjectSet.Object == b.SubjectSet.Object, a.SubjectSet.Relation == b.SubjectSet.Relation)))
	}
	return r
}

// HarnessC18StringStable: for every string s of length n, FromString(s)
// errors or re-encodes to a string that parses to the same value; text
// without the separators in order is rejected.
func HarnessC18StringStable() {
	n := verifChoice(verifParam("n") + 1)
	s := verifString(n)
	x, err := (&RelationTuple{}).FromString(s)
	if err != nil {
		verifReach("c18.stable.rejected")
		return
	}
	verifReach("c18.stable.accepted")
	y, err2 := (&RelationTuple{}).FromString(x.String())
	verifAssert(err2 == nil, "C18 string: String(FromString(s)) does not parse again")
	if err2 != nil {
		return
	}
	verifAssert(verifC18TupleEq(x, y), "C18 string: String(FromString(s)) re-parses to a different value")
}
