//go:build verif

package ketoapi

// C18: relationship encodings are faithful on their documented domains.

import rts "github.com/ory/keto/proto/ory/keto/relation_tuples/v1alpha2"

// verifC18Dom is the documented domain of the human-readable form: the fields
// avoid the separator characters in the positions where they are significant.
func verifC18NoByte(s string, c byte) bool {
	r := true
	for i := 0; i < len(s); i++ {
		r = verifAnd(r, s[i] != c)
	}
	return r
}

func verifC18NotParenEdge(s string) bool {
	if len(s) == 0 {
		return true
	}
	f, l := s[0], s[len(s)-1]
	return verifAnd(verifAnd(f != '(', f != ')'), verifAnd(l != '(', l != ')'))
}

// HarnessC18StringRoundTripID: FromString(String(x)) == x for subject-id tuples
// whose fields have the concrete lengths chosen by verifChoice and arbitrary
// bytes within the domain.
func HarnessC18StringRoundTripID() {
	c := verifParam("cap")
	ns := verifString(verifChoice(c + 1))
	obj := verifString(verifChoice(c + 1))
	rel := verifString(verifChoice(c + 1))
	sid := verifString(verifChoice(c + 1))
	// domain
	verifAssume(verifC18NoByte(ns, ':'))
	verifAssume(verifC18NoByte(obj, '#'))
	verifAssume(verifC18NoByte(rel, '@'))
	verifAssume(verifC18NoByte(sid, ':'))
	verifAssume(verifC18NotParenEdge(sid))
	x := &RelationTuple{Namespace: ns, Object: obj, Relation: rel, SubjectID: &sid}
	s := x.String()
	y, err := (&RelationTuple{}).FromString(s)
	verifReach("c18.id.decoded")
	verifAssert(err == nil, "C18 string: FromString(String(x)) fails for x in the documented domain (subject id)")
	if err != nil {
		return
	}
	verifAssert(y.Namespace == ns, "C18 string: namespace changed by round trip")
	verifAssert(y.Object == obj, "C18 string: object changed by round trip")
	verifAssert(y.Relation == rel, "C18 string: relation changed by round trip")
	verifAssert(y.SubjectSet == nil && y.SubjectID != nil, "C18 string: subject id became a subject set")
	if y.SubjectID != nil {
		verifAssert(*y.SubjectID == sid, "C18 string: subject id changed by round trip")
	}
}

// HarnessC18StringRoundTripSet: same for subject-set tuples.
func HarnessC18StringRoundTripSet() {
	c := verifParam("cap")
	ns := verifString(verifChoice(c + 1))
	obj := verifString(verifChoice(c + 1))
	rel := verifString(verifChoice(c + 1))
	sns := verifString(verifChoice(c + 1))
	sobj := verifString(verifChoice(c + 1))
	srel := verifString(verifChoice(c + 1))
	verifAssume(verifC18NoByte(ns, ':'))
	verifAssume(verifC18NoByte(obj, '#'))
	verifAssume(verifC18NoByte(rel, '@'))
	// subject set: namespace without ':' '#' and no leading paren; object
	// without '#'; relation (last) without trailing paren
	verifAssume(verifC18NoByte(sns, ':'))
	verifAssume(verifC18NoByte(sns, '#'))
	verifAssume(verifC18NoByte(sobj, '#'))
	if len(sns) > 0 {
		verifAssume(verifAnd(sns[0] != '(', sns[0] != ')'))
	}
	// the last byte of the rendered subject set must not be a parenthesis
	last := srel
	if len(srel) == 0 {
		last = sobj
	}
	if len(last) > 0 {
		l := last[len(last)-1]
		verifAssume(verifAnd(l != '(', l != ')'))
	}
	if len(sns) == 0 && len(sobj) > 0 {
		verifAssume(verifAnd(sobj[0] != '(', sobj[0] != ')'))
	}
	x := &RelationTuple{Namespace: ns, Object: obj, Relation: rel, SubjectSet: &SubjectSet{Namespace: sns, Object: sobj, Relation: srel}}
	s := x.String()
	y, err := (&RelationTuple{}).FromString(s)
	verifReach("c18.set.decoded")
	verifAssert(err == nil, "C18 string: FromString(String(x)) fails for x in the documented domain (subject set)")
	if err != nil {
		return
	}
	verifAssert(y.Namespace == ns, "C18 string: namespace changed by round trip")
	verifAssert(y.Object == obj, "C18 string: object changed by round trip")
	verifAssert(y.Relation == rel, "C18 string: relation changed by round trip")
	verifAssert(y.SubjectID == nil && y.SubjectSet != nil, "C18 string: subject set became a subject id")
	if y.SubjectSet != nil {
		verifAssert(y.SubjectSet.Namespace == sns, "C18 string: subject set namespace changed")
		verifAssert(y.SubjectSet.Object == sobj, "C18 string: subject set object changed")
		verifAssert(y.SubjectSet.Relation == srel, "C18 string: subject set relation changed")
	}
}

func verifC18TupleEq(a, b *RelationTuple) bool {
	r := verifAnd(a.Namespace == b.Namespace, verifAnd(a.Object == b.Object, a.Relation == b.Relation))
	if (a.SubjectID == nil) != (b.SubjectID == nil) || (a.SubjectSet == nil) != (b.SubjectSet == nil) {
		return false
	}
	if a.SubjectID != nil {
		r = verifAnd(r, *a.SubjectID == *b.SubjectID)
	}
	if a.SubjectSet != nil {
		r = verifAnd(r, verifAnd(a.SubjectSet.Namespace == b.SubjectSet.Namespace,
			verifAnd(a.SubjectSet.Object == b.SubjectSet.Object, a.SubjectSet.Relation == b.SubjectSet.Relation)))
	}
	return r
}

// HarnessC18StringStable: for every string s of length n, FromString(s)
// errors or re-encodes to a string that parses to the same value; text
// without the separators in order is rejected.
func HarnessC18StringStable() {
	n := verifChoice(verifParam("n") + 1)
	s := verifString(n)
	x, err := (&RelationTuple{}).FromString(s)
	if err != nil {
		verifReach("c18.stable.rejected")
		return
	}
	verifReach("c18.stable.accepted")
	y, err2 := (&RelationTuple{}).FromString(x.String())
	verifAssert(err2 == nil, "C18 string: String(FromString(s)) does not parse again")
	if err2 != nil {
		return
	}
	// class of the decoded value: does its subject render with a parenthesis
	// at either edge (which the next decode trims away)?
	sub := ""
	if x.SubjectID != nil {
		sub = *x.SubjectID
	} else {
		sub = x.SubjectSet.String()
	}
	edge := false
	if len(sub) > 0 {
		f, l := sub[0], sub[len(sub)-1]
		edge = verifOr(verifOr(f == '(', f == ')'), verifOr(l == '(', l == ')'))
	}
	eq := verifC18TupleEq(x, y)
	verifAssert(verifOr(edge, eq), "C18 string: String(FromString(s)) re-parses to a different value")
	verifTag("decoded-subject-has-parenthesis-at-an-edge")
	verifAssert(verifOr(verifNot(edge), eq), "C18 string: String(FromString(s)) re-parses to a different value (decoded subject keeps a parenthesis at an edge)")
	verifTag("")
}

// ---------------------------------------------------------------------------
// proto and URL-query legs: opaque strings (any length, any content)

func verifC18Tuple() *RelationTuple {
	x := &RelationTuple{Namespace: verifOpaqueString(), Object: verifOpaqueString(), Relation: verifOpaqueString()}
	if verifChoice(2) == 0 {
		s := verifOpaqueString()
		x.SubjectID = &s
	} else {
		x.SubjectSet = &SubjectSet{Namespace: verifOpaqueString(), Object: verifOpaqueString(), Relation: verifOpaqueString()}
	}
	return x
}

func verifC18Query() *RelationQuery {
	q := &RelationQuery{}
	if verifChoice(2) == 1 {
		s := verifOpaqueString()
		q.Namespace = &s
	}
	if verifChoice(2) == 1 {
		s := verifOpaqueString()
		q.Object = &s
	}
	if verifChoice(2) == 1 {
		s := verifOpaqueString()
		q.Relation = &s
	}
	switch verifChoice(3) {
	case 1:
		s := verifOpaqueString()
		q.SubjectID = &s
	case 2:
		q.SubjectSet = &SubjectSet{Namespace: verifOpaqueString(), Object: verifOpaqueString(), Relation: verifOpaqueString()}
	}
	return q
}

func verifC18PtrEq(a, b *string) bool {
	if (a == nil) != (b == nil) {
		return false
	}
	if a == nil {
		return true
	}
	return *a == *b
}

func verifC18SetEq(a, b *SubjectSet) bool {
	if (a == nil) != (b == nil) {
		return false
	}
	if a == nil {
		return true
	}
	return verifAnd(a.Namespace == b.Namespace, verifAnd(a.Object == b.Object, a.Relation == b.Relation))
}

func verifC18QueryEq(a, b *RelationQuery) bool {
	return verifAnd(verifAnd(verifC18PtrEq(a.Namespace, b.Namespace), verifC18PtrEq(a.Object, b.Object)),
		verifAnd(verifC18PtrEq(a.Relation, b.Relation), verifAnd(verifC18PtrEq(a.SubjectID, b.SubjectID), verifC18SetEq(a.SubjectSet, b.SubjectSet))))
}

func verifC18TupleEqOpaque(a, b *RelationTuple) bool {
	return verifAnd(verifAnd(a.Namespace == b.Namespace, a.Object == b.Object),
		verifAnd(a.Relation == b.Relation, verifAnd(verifC18PtrEq(a.SubjectID, b.SubjectID), verifC18SetEq(a.SubjectSet, b.SubjectSet))))
}

// HarnessC18ProtoTuple: FromProto(ToProto(x)) == x and FromDataProvider(ToProto(x)) == x.
func HarnessC18ProtoTuple() {
	x := verifC18Tuple()
	p := x.ToProto()
	y := (&RelationTuple{}).FromProto(p)
	verifReach("c18.proto.tuple")
	verifAssert(verifC18TupleEqOpaque(x, y), "C18 proto: FromProto(ToProto(x)) != x")
	z, err := (&RelationTuple{}).FromDataProvider(p)
	verifAssert(err == nil, "C18 proto: FromDataProvider(ToProto(x)) fails")
	if err == nil {
		verifAssert(verifC18TupleEqOpaque(x, z), "C18 proto: FromDataProvider(ToProto(x)) != x")
	}
}

// verifC18QueryAdapter exposes the optional fields of the proto query the way
// the real wrapper in internal/relationtuple does (field accessors only).
type verifC18QueryAdapter struct{ q *rts.RelationQuery }

func (w verifC18QueryAdapter) GetSubject() *rts.Subject { return w.q.Subject }
func (w verifC18QueryAdapter) GetObject() *string       { return w.q.Object }
func (w verifC18QueryAdapter) GetNamespace() *string    { return w.q.Namespace }
func (w verifC18QueryAdapter) GetRelation() *string     { return w.q.Relation }

// HarnessC18ProtoQuery: FromDataProvider(ToProto(q)) == q for all 2^3 x 3 shapes.
func HarnessC18ProtoQuery() {
	q := verifC18Query()
	p := q.ToProto()
	r := (&RelationQuery{}).FromDataProvider(verifC18QueryAdapter{p})
	verifReach("c18.proto.query")
	verifAssert(verifC18QueryEq(q, r), "C18 proto: FromDataProvider(ToProto(q)) != q")
}

// HarnessC18URLTuple: FromURLQuery(ToURLQuery(x)) == x.
func HarnessC18URLTuple() {
	x := verifC18Tuple()
	v := x.ToURLQuery()
	y, err := (&RelationTuple{}).FromURLQuery(v)
	verifReach("c18.url.tuple")
	verifAssert(err == nil, "C18 url: FromURLQuery(ToURLQuery(x)) fails")
	if err == nil {
		verifAssert(verifC18TupleEqOpaque(x, y), "C18 url: FromURLQuery(ToURLQuery(x)) != x")
	}
}

// HarnessC18URLQuery: FromURLQuery(ToURLQuery(q)) == q for all shapes.
func HarnessC18URLQuery() {
	q := verifC18Query()
	v := q.ToURLQuery()
	r, err := (&RelationQuery{}).FromURLQuery(v)
	verifReach("c18.url.query")
	verifAssert(err == nil, "C18 url: FromURLQuery(ToURLQuery(q)) fails")
	if err == nil {
		verifAssert(verifC18QueryEq(q, r), "C18 url: FromURLQuery(ToURLQuery(q)) != q")
	}
}

// HarnessC18URLSubjectSet: SubjectSet URL round trip.
func HarnessC18URLSubjectSet() {
	s := &SubjectSet{Namespace: verifOpaqueString(), Object: verifOpaqueString(), Relation: verifOpaqueString()}
	r := (&SubjectSet{}).FromURLQuery(s.ToURLQuery())
	verifReach("c18.url.set")
	verifAssert(verifC18SetEq(s, r), "C18 url: SubjectSet FromURLQuery(ToURLQuery(s)) != s")
}
